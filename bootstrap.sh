#!/bin/sh
# Idempotent, offline: builds /verif/.venv (overlay on /venv with crosshair-tool + z3-solver).
set -e
HERE="$(cd "$(dirname "$0")" && pwd)"
V="$HERE/.venv"
STAMP="$V/.ok"
if [ -f "$STAMP" ]; then exit 0; fi
(
  flock 9
  if [ -f "$STAMP" ]; then exit 0; fi
  rm -rf "$V"
  /venv/bin/python -m venv "$V" >/dev/null
  SP="$V/lib/python3.12/site-packages"
  printf "import site; site.addsitedir('/venv/lib/python3.12/site-packages')\n" > "$SP/_verif_overlay.pth"
  PIP_NO_INDEX=1 "$V/bin/python" -m pip install -q --no-index --find-links /opt/veriftools/wheels crosshair-tool z3-solver >/dev/null 2>&1 || {
     echo "bootstrap: pip install failed" >&2; exit 2; }
  "$V/bin/python" -c "import crosshair, z3, regex" || exit 2
  touch "$STAMP"
) 9>"$HERE/.bootstrap.lock"
