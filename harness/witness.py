"""API-level witnesses of recorded known findings (concrete inputs; they only decide whether a KNOWN-FINDING line is
still due -- the universally quantified part of each property is decided by the symbolic obligations)."""
from datetime import datetime

from harness.common import *  # noqa


def _spans(results):
    return [(r.text, r.start, r.end) for r in results]


def _overlapping(spans):
    for i in range(len(spans)):
        for j in range(i + 1, len(spans)):
            if spans[i][1] <= spans[j][2] and spans[j][1] <= spans[i][2]:
                return (spans[i], spans[j])
    return None


def api_witness(slice_, timeout):
    kind = slice_['w']
    if kind == 'F2':
        from recognizers_date_time import recognize_datetime
        sp = _spans(recognize_datetime('The range is in 2014 through 2018.', 'en-us', reference=datetime(2016, 11, 7)))
        bad = [s for s in sp if s[2] < s[1] or s[0] == '']
        if bad:
            return {'state': 'counterexample', 'cex': {'w': kind}, 'detail': 'empty entity with end < start: %r' % (bad,), 'queries': 1}
    elif kind == 'F3a':
        from recognizers_date_time import recognize_datetime
        sp = _spans(recognize_datetime('It will happen between 10 and 11:30 on 1/1/2015', 'en-us', reference=datetime(2016, 11, 7)))
        o = _overlapping(sp)
        if o:
            return {'state': 'counterexample', 'cex': {'w': kind}, 'detail': 'overlapping entities %r' % (o,), 'queries': 1}
    elif kind == 'F3b':
        from recognizers_number_with_unit import recognize_currency
        sp = _spans(recognize_currency('10 $ 30 $', 'en-us'))
        o = _overlapping(sp)
        if o:
            return {'state': 'counterexample', 'cex': {'w': kind}, 'detail': 'overlapping entities %r' % (o,), 'queries': 1}
    elif kind == 'F37':
        from recognizers_date_time import recognize_datetime
        sp = _spans(recognize_datetime('x从明天', 'zh-cn', reference=datetime(2016, 11, 7)))
        bad = [s for s in sp if s[1] < 0]
        if bad:
            return {'state': 'counterexample', 'cex': {'w': kind}, 'detail': 'entity with a negative start: %r' % (bad,), 'queries': 1}
    elif kind == 'F41':
        from recognizers_number_with_unit import recognize_dimension
        sp = _spans(recognize_dimension('12 两米', 'zh-cn'))
        o = _overlapping(sp)
        if o:
            return {'state': 'counterexample', 'cex': {'w': kind}, 'detail': 'overlapping entities %r' % (o,), 'queries': 1}
    elif kind == 'F43':
        from recognizers_date_time import recognize_datetime
        sp = _spans(recognize_datetime('nos vemos más tarde esta tarde.', 'es-es', reference=datetime(2016, 11, 7)))
        o = _overlapping(sp)
        if o:
            return {'state': 'counterexample', 'cex': {'w': kind}, 'detail': 'overlapping entities %r' % (o,), 'queries': 1}
    elif kind == 'F44':
        from recognizers_date_time import recognize_datetime
        q = 'before 1/1/2016 and after'
        sp = _spans(recognize_datetime(q, 'en-us', reference=datetime(2016, 11, 7)))
        bad = [x for x in sp if q[x[1]:x[2] + 1].strip() != x[0].strip()]
        if bad:
            return {'state': 'counterexample', 'cex': {'w': kind}, 'detail': 'text differs from the slice: %r' % (bad,), 'queries': 1}
    elif kind == 'F45':
        from recognizers_date_time import recognize_datetime
        rs = recognize_datetime('He has been China from 2019-aug-01 to today.', 'en-us', reference=datetime(2019, 1, 31))
        bad = [v for r in rs for v in (r.resolution or {}).get('values', []) if v.get('type') == 'daterange' and v.get('start') and v.get('end') and not v['start'] < v['end']]
        if bad:
            return {'state': 'counterexample', 'cex': {'w': kind}, 'detail': 'date range with start not before end: %r' % (bad,), 'queries': 1}
    elif kind == 'F46':
        from recognizers_date_time import recognize_datetime
        rs = recognize_datetime('from 10:30 to 3', 'en-us', reference=datetime(2016, 11, 7))
        bad = [v for r in rs for v in r.resolution['values'] if any(str(v.get(k, ''))[:2] > '23' for k in ('start', 'end'))]
        if bad:
            return {'state': 'counterexample', 'cex': {'w': kind}, 'detail': 'time range with an hour beyond 23: %r' % (bad,), 'queries': 1}
    elif kind in ('F47', 'F48'):
        from recognizers_date_time import recognize_datetime
        q = '从一月十日到20日' if kind == 'F47' else '显示 2010 年至 2018 年或 2000 年之前的销售额'
        rs = recognize_datetime(q, 'zh-cn', reference=datetime(2000, 1, 20))
        bad = [v for r in rs for v in (r.resolution or {}).get('values', []) if v.get('type') == 'daterange' and v.get('start') and v.get('end') and not v['start'] < v['end']]
        if bad:
            return {'state': 'counterexample', 'cex': {'w': kind}, 'detail': 'date range with start not before end: %r' % (bad,), 'queries': 1}
    elif kind == 'F49':
        from recognizers_date_time import recognize_datetime
        rs = recognize_datetime('傍晚13点', 'zh-cn', reference=datetime(2016, 11, 7))
        bad = [v for r in rs for v in (r.resolution or {}).get('values', []) if str(v.get('timex', ''))[1:3] > '24']
        if bad:
            return {'state': 'counterexample', 'cex': {'w': kind}, 'detail': 'time with a TIMEX hour beyond 24: %r' % (bad,), 'queries': 1}
    elif kind == 'F50':
        from recognizers_date_time import recognize_datetime
        rs = recognize_datetime("I'll go back May twenty nine", 'en-us', reference=datetime(2001, 3, 1))
        got = [v.get('value') for r in rs for v in (r.resolution or {}).get('values', [])]
        if got != ['2000-05-29', '2001-05-29']:
            return {'state': 'counterexample', 'cex': {'w': kind}, 'detail': "'May twenty nine' at 2001-03-01 -> %r, expected 2000-05-29 and 2001-05-29" % (got,), 'queries': 1}
    elif kind == 'F51':
        from recognizers_date_time import recognize_datetime
        rs = recognize_datetime('rows equals to date from 2010-01-01 till current date', 'en-us', reference=datetime(2018, 4, 25))
        bad = [v for r in rs for v in (r.resolution or {}).get('values', []) if v.get('type') == 'daterange' and v.get('end') and v['end'] not in str(v.get('timex'))]
        if bad:
            return {'state': 'counterexample', 'cex': {'w': kind}, 'detail': 'range end differs from the end of its TIMEX: %r' % (bad,), 'queries': 1}
    elif kind in ('F57', 'F58'):
        from recognizers_number import recognize_number
        q, c, want = ('1.234 millions', 'fr-fr', '1234000000') if kind == 'F57' else ('7hundert', 'de-de', '700')
        got = [(r.text, r.resolution.get('value')) for r in recognize_number(q, c)]
        if got != [(q, want)]:
            return {'state': 'counterexample', 'cex': {'w': kind}, 'detail': '%r (%s) -> %r, expected value %s' % (q, c, got, want), 'queries': 1}
    elif kind == 'F61':
        from recognizers_date_time import recognize_datetime
        bad = []
        for q, c in (('este mês', 'pt-br'), ('We have lived here from the end of 1989', 'en-us'), ('We hope to leave in the next fortnight.', 'en-us'), ('la semana pasada.', 'es-es')):
            rs = recognize_datetime(q, c, reference=datetime(2016, 11, 9))
            bad += [(q, v) for r in rs for v in (r.resolution or {}).get('values', []) if not v.get('timex') and v.get('value') != 'not resolved']
        if bad:
            return {'state': 'counterexample', 'cex': {'w': kind}, 'detail': 'date range without a TIMEX: %r' % (bad,), 'queries': 1}
    elif kind in ('F64', 'F65', 'F66'):
        from recognizers_date_time import recognize_datetime
        q, want = {'F64': ('十一到十二点', '(T11,T12,PT1H)'), 'F65': ('从4点20分10秒到4点20分30秒', '(T04:20:10,T04:20:30,PT0M20S)'), 'F66': ('从4点50分到4点10分', '(T04:50,T04:10,PT23H20M)')}[kind]
        rs = recognize_datetime(q, 'zh-cn', reference=datetime(2016, 11, 7, 10, 30))
        got = [v.get('timex') for r in rs for v in (r.resolution or {}).get('values', [])]
        bad = got != [want]
        if not bad and kind == 'F66':
            v = rs[0].resolution['values'][0]
            bad = (v['start'], v['end']) != ('04:50:00', '04:10:00')
        if bad:
            return {'state': 'counterexample', 'cex': {'w': kind}, 'detail': '%r -> %r, expected TIMEX %s' % (q, got, want), 'queries': 1}
    elif kind == 'F37-overlap':
        from recognizers_date_time import recognize_datetime
        sp = _spans(recognize_datetime('明天三天后', 'zh-cn', reference=datetime(2016, 11, 7)))
        o = _overlapping(sp)
        if o:
            return {'state': 'counterexample', 'cex': {'w': kind}, 'detail': 'overlapping entities %r' % (o,), 'queries': 1}
    return {'state': 'discharged', 'detail': 'witness no longer violates', 'queries': 1}


def api_witness__replay(slice_, cex):
    r = api_witness(slice_, 0)
    return {'reproduced': r['state'] == 'counterexample', 'detail': r['detail']}
