"""C10 / C11 -- Chinese year-to-year periods ('98年到05年', '2010年至2018年'): the real ChineseDatePeriodParser._parse_year_to_year
(two-digit-year expansion, endpoints, TIMEX with its duration) on two symbolic years.  The regex layer is the stub of
harness/dateparse.py (the year-to-year pattern matches, the year pattern finds two year groups) and the CJK number parser inside
the period parser is a stub returning the symbolic year for the group text -- which texts the patterns accept is not decided here."""
import sys

from harness.dtcommon import *  # noqa
from recognizers_date_time.date_time.chinese.dateperiod_parser import ChineseDatePeriodParser

_ZP = sys.modules[DT + 'chinese.dateperiod_parser']
env.assert_repo(_ZP)
_ZP.int = digits.unint
if ENGINE == 'sx':
    for _n, _v in (('datetime', symdate.sdatetime), ('timedelta', symdate.stimedelta)):
        if hasattr(_ZP, _n):
            setattr(_ZP, _n, _v)
    digits.FREE_WIDTH[0] = True          # f'P{n}Y' of a symbolic n renders as a free-width placeholder

P = ChineseDatePeriodParser()
W1 = sl('w1', 4)          # digits of the first year as written (2 or 4)
W2 = sl('w2', 4)


class FakeRegex:
    def __init__(self):
        self.hits = {}

    def search(self, pattern, s, *a, **k):
        v = self.hits.get(id(pattern))
        return v[0] if v else None

    match = search

    def finditer(self, pattern, s, *a, **k):
        return iter(self.hits.get(id(pattern), []))

    def findall(self, pattern, s, *a, **k):
        return []


FR = FakeRegex()
_ZP.regex = FR
YEARS = {}
setattr(P, '_ChineseDatePeriodParser__convert_chinese_to_number', lambda text: YEARS[text])


def _pivot(y, w):
    """the year a w-digit numeral y stands for: two-digit 90..99 -> 19yy, 00..19 -> 20yy, otherwise the number itself"""
    if w == 2:
        if y >= 90:
            return 1900 + y
        if y < 20:
            return 2000 + y
    return y


def h_year_to_year(y1: int, y2: int):
    assert (1000 <= y1 <= 2999 if W1 == 4 else 0 <= y1 <= 99) and (1000 <= y2 <= 2999 if W2 == 4 else 0 <= y2 <= 99)
    digits.reset()
    YEARS.clear()
    YEARS.update({'Y1': y1, 'Y2': y2})
    FR.hits = {id(P.year_to_year_regex): [FakeMatch({}, text='x')],
               id(P.config.year_regex): [FakeMatch({'year': 'Y1'}, text='Y1'), FakeMatch({'year': 'Y2'}, text='Y2', start=3)]}
    r = P._parse_year_to_year('x', datetime(2016, 11, 7))
    assert r.success
    e1, e2 = _pivot(y1, W1), _pivot(y2, W2)
    b, e = r.future_value
    assert r.past_value[0] == b and r.past_value[1] == e
    assert (b.year, b.month, b.day) == (e1, 1, 1) and (e.year, e.month, e.day) == (e2, 1, 1), ('endpoints', r.timex)
    j = digits._join(digits._norm(digits.decode(r.timex)))
    # '(' yyyy '-' mm '-' dd ',' yyyy '-' mm '-' dd ',P' n 'Y)'
    nums = [it for it in j if not isinstance(it, str)]
    lits = ''.join(it if isinstance(it, str) else '#' for it in j)
    assert lits in ('(#-#-#,#-#-#,P#Y)', '(#-#-#,#-#-#,P-#Y)'), ('timex shape', r.timex)
    assert (nums[0][0], nums[1][0], nums[2][0]) == (e1, 1, 1) and (nums[3][0], nums[4][0], nums[5][0]) == (e2, 1, 1), ('TIMEX endpoints differ from the values', r.timex)
    n = nums[6][0] if 'P-' not in lits else -nums[6][0]
    assert n == e2 - e1, ('end minus start differs from the duration', r.timex)


def t_year_to_year(y1: int, y2: int):
    assert (1000 <= y1 <= 2999 if W1 == 4 else 0 <= y1 <= 99) and (1000 <= y2 <= 2999 if W2 == 4 else 0 <= y2 <= 99)
    digits.reset()
    YEARS.clear()
    YEARS.update({'Y1': y1, 'Y2': y2})
    FR.hits = {id(P.year_to_year_regex): [FakeMatch({}, text='x')],
               id(P.config.year_regex): [FakeMatch({'year': 'Y1'}, text='Y1'), FakeMatch({'year': 'Y2'}, text='Y2', start=3)]}
    r = P._parse_year_to_year('x', datetime(2016, 11, 7))
    assert not r.success
