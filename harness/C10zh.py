"""C10 / C11 -- Chinese year-to-year periods ('98年到05年', '2010年至2018年'): the real ChineseDatePeriodParser._parse_year_to_year
(two-digit-year expansion, endpoints, TIMEX with its duration) on two symbolic years.  The regex layer is the stub of
harness/dateparse.py (the year-to-year pattern matches, the year pattern finds two year groups) and the CJK number parser inside
the period parser is a stub returning the symbolic year for the group text -- which texts the patterns accept is not decided here."""
import sys

from harness.dtcommon import *  # noqa
from recognizers_date_time.date_time.chinese.dateperiod_parser import ChineseDatePeriodParser

_ZP = sys.modules[DT + 'chinese.dateperiod_parser']
env.assert_repo(_ZP)
_ZP.int = digits.unint
if ENGINE == 'sx':
    for _n, _v in (('datetime', symdate.sdatetime), ('timedelta', symdate.stimedelta)):
        if hasattr(_ZP, _n):
            setattr(_ZP, _n, _v)
    digits.FREE_WIDTH[0] = True          # f'P{n}Y' of a symbolic n renders as a free-width placeholder

P = ChineseDatePeriodParser()
W1 = sl('w1', 4)          # digits of the first year as written (2 or 4)
W2 = sl('w2', 4)


class FakeRegex:
    def __init__(self):
        self.hits = {}

    def search(self, pattern, s, *a, **k):
        v = self.hits.get(id(pattern))
        return v[0] if v else None

    match = search

    def finditer(self, pattern, s, *a, **k):
        return iter(self.hits.get(id(pattern), []))

    def findall(self, pattern, s, *a, **k):
        return []


FR = FakeRegex()
_ZP.regex = FR
YEARS = {}
setattr(P, '_ChineseDatePeriodParser__convert_chinese_to_number', lambda text: YEARS[text])


def _pivot(y, w):
    """the year a w-digit numeral y stands for: two-digit 90..99 -> 19yy, 00..19 -> 20yy, otherwise the number itself"""
    if w == 2:
        if y >= 90:
            return 1900 + y
        if y < 20:
            return 2000 + y
    return y


def h_year_to_year(y1: int, y2: int):
    assert (1000 <= y1 <= 2999 if W1 == 4 else 0 <= y1 <= 99) and (1000 <= y2 <= 2999 if W2 == 4 else 0 <= y2 <= 99)
    digits.reset()
    YEARS.clear()
    YEARS.update({'Y1': y1, 'Y2': y2})
    FR.hits = {id(P.year_to_year_regex): [FakeMatch({}, text='x')],
               id(P.config.year_regex): [FakeMatch({'year': 'Y1'}, text='Y1'), FakeMatch({'year': 'Y2'}, text='Y2', start=3)]}
    r = P._parse_year_to_year('x', datetime(2016, 11, 7))
    assert r.success
    e1, e2 = _pivot(y1, W1), _pivot(y2, W2)
    b, e = r.future_value
    assert r.past_value[0] == b and r.past_value[1] == e
    assert (b.year, b.month, b.day) == (e1, 1, 1) and (e.year, e.month, e.day) == (e2, 1, 1), ('endpoints', r.timex)
    j = digits._join(digits._norm(digits.decode(r.timex)))
    # '(' yyyy '-' mm '-' dd ',' yyyy '-' mm '-' dd ',P' n 'Y)'
    nums = [it for it in j if not isinstance(it, str)]
    lits = ''.join(it if isinstance(it, str) else '#' for it in j)
    assert lits in ('(#-#-#,#-#-#,P#Y)', '(#-#-#,#-#-#,P-#Y)'), ('timex shape', r.timex)
    assert (nums[0][0], nums[1][0], nums[2][0]) == (e1, 1, 1) and (nums[3][0], nums[4][0], nums[5][0]) == (e2, 1, 1), ('TIMEX endpoints differ from the values', r.timex)
    n = nums[6][0] if 'P-' not in lits else -nums[6][0]
    assert n == e2 - e1, ('end minus start differs from the duration', r.timex)


def t_year_to_year(y1: int, y2: int):
    assert (1000 <= y1 <= 2999 if W1 == 4 else 0 <= y1 <= 99) and (1000 <= y2 <= 2999 if W2 == 4 else 0 <= y2 <= 99)
    digits.reset()
    YEARS.clear()
    YEARS.update({'Y1': y1, 'Y2': y2})
    FR.hits = {id(P.year_to_year_regex): [FakeMatch({}, text='x')],
               id(P.config.year_regex): [FakeMatch({'year': 'Y1'}, text='Y1'), FakeMatch({'year': 'Y2'}, text='Y2', start=3)]}
    r = P._parse_year_to_year('x', datetime(2016, 11, 7))
    assert not r.success


# ---- Chinese time periods: ChineseTimePeriodParser.parse_time_period / build_timex / build_span ----------------------------------------------------
from recognizers_date_time.date_time.chinese.timeperiod_parser import ChineseTimePeriodParser  # noqa: E402
from recognizers_date_time.date_time.chinese.timeperiod_extractor import TimePeriodType  # noqa: E402
from recognizers_date_time.date_time.chinese.base_date_time_extractor import DateTimeExtra, TimeResult  # noqa: E402
from lib.symx import assume  # noqa: E402

_ZTP = sys.modules[DT + 'chinese.timeperiod_parser']
env.assert_repo(_ZTP)
if ENGINE == 'sx':
    for _n, _v in (('datetime', symdate.sdatetime), ('timedelta', symdate.stimedelta)):
        if hasattr(_ZTP, _n):
            setattr(_ZTP, _n, _v)
TPP = ChineseTimePeriodParser()
FIELDS = sl('fields', 2)          # 1: hours only, 2: hours and minutes, 3: with seconds
LB1 = sl('lb1', -1)               # low bound the time parser reports for the left / right time: -1 no day-part word, 0 a word without a window, 12 / 18 ...
LB2 = sl('lb2', -1)


class _TimeStub:
    results = {}

    def parse(self, er, reference=None):
        class R:
            pass
        r = R()
        r.data = self.results[er.text]
        return r


_TS = _TimeStub()
TPP.config._time_parser = _TS
if not hasattr(type(TPP.config), '_patched_tp'):
    type(TPP.config).time_parser = property(lambda self: _TS)
    type(TPP.config)._patched_tp = True


def h_zh_time_period(h1: int, m1: int, s1: int, h2: int, m2: int, s2: int):
    """two clock times as the Chinese time parser reports them (hour already shifted by its own day-part word, low bound recorded): the period's TIMEX is
    (T<start>,T<end>,<span>) with the clock times of the resolved start / end, and the span is end - start (the end may lie on the next day)"""
    assert 0 <= h1 <= 23 and 0 <= m1 <= 59 and 0 <= s1 <= 59 and 0 <= h2 <= 23 and 0 <= m2 <= 59 and 0 <= s2 <= 59
    assert (LB1 <= 0 or h1 >= LB1) and (LB2 <= 0 or h2 >= LB2)          # a time under a day-part window lies in that window
    digits.reset()
    digits.SEMANTIC_MERGE[0] = False
    if FIELDS < 3:
        assume(s1 == 0 and s2 == 0)
    if FIELDS < 2:
        assume(m1 == 0 and m2 == 0)
    left = TimeResult(h1, m1 if FIELDS >= 2 else -1, s1 if FIELDS >= 3 else -1, LB1)
    right = TimeResult(h2, m2 if FIELDS >= 2 else -1, s2 if FIELDS >= 3 else -1, LB2)
    _TS.results = {'L': left, 'R': right}
    extra = DateTimeExtra()
    extra.data_type = TimePeriodType.FullTime
    extra.named_entity = {'left': ['L'], 'right': ['R']}
    extra.match = FakeMatch({}, text='L-R')
    eh2 = h2 + 12 if (LB2 == -1 and LB1 != -1 and h2 <= LB1) else h2          # an unmarked end after a marked start stays in the start's half of the day
    assume(eh2 < 24 or (eh2 == 24 and m2 == 0 and s2 == 0))          # 24:00 is the only clock time with hour 24
    r = TPP.parse_time_period(extra, datetime(2016, 11, 7, 7, 30))
    assert r.success
    b, e = r.future_value
    assert r.past_value[0] == b and r.past_value[1] == e
    assert (b.hour, b.minute, b.second) == (h1, m1, s1), ('start', r.timex)
    assert (e.hour, e.minute, e.second) == (eh2 - 24 if eh2 == 24 else eh2, m2, s2), ('end', r.timex)
    t1 = h1 * 3600 + m1 * 60 + s1
    t2 = eh2 * 3600 + m2 * 60 + s2
    assume(t1 != t2)
    want_span = t2 - t1 if t2 > t1 else t2 - t1 + 86400
    j = digits._join(digits._norm(digits.decode(r.timex)))
    # split the decoded TIMEX at its two top-level commas
    parts, cur = [], []
    for it in j:
        if isinstance(it, str):
            for ch in it:
                if ch == ',':
                    parts.append(cur)
                    cur = []
                elif ch not in '()':
                    cur.append(ch)
        else:
            cur.append(it)
    parts.append(cur)
    assert len(parts) == 3, ('timex shape', r.timex)

    def clock(pc):
        assert pc and pc[0] == 'T', pc
        nums = [x[0] for x in pc if not isinstance(x, str)]
        return nums + [0] * (3 - len(nums))
    c1, c2 = clock(parts[0]), clock(parts[1])
    assert c1 == [h1, m1, s1] and c2 == [eh2, m2, s2], ('TIMEX clock times differ from the resolved start / end', r.timex)
    sp = parts[2]
    assert sp[:2] == ['P', 'T'], ('span', r.timex)
    tot, k = 0, 2
    while k < len(sp):
        assert not isinstance(sp[k], str) and k + 1 < len(sp) and sp[k + 1] in ('H', 'M', 'S'), ('span', r.timex)
        tot = tot + sp[k][0] * {'H': 3600, 'M': 60, 'S': 1}[sp[k + 1]]
        k += 2
    assert tot == want_span, ('end minus start differs from the duration', r.timex)
    if eh2 < 24:          # (hour 24 has no datetime: build_date falls back to the min-value date; only the clock time is rendered)
        assert b < e and (e - b).total_seconds() == want_span, ('resolved end minus start differs from the span', r.timex)


# ---- Chinese durations through the public API (small-scope enumeration; not a solver verdict) -------------------------------------------------
def zh_durations_api(slice_, timeout):
    """N <unit>, N <unit>半 / N个半<unit> and N.5 <unit> for N = 1..30 and the seven units: whenever the model returns one duration entity over the whole text,
    its TIMEX is P[T]<count><U> and its value is count x the unit's length in seconds (count = N or N + 0.5)"""
    from recognizers_date_time import recognize_datetime
    import datetime as _dt
    units = [('秒', 'S', 1, True), ('分钟', 'M', 60, True), ('小时', 'H', 3600, True), ('天', 'D', 86400, False), ('周', 'W', 604800, False), ('个月', 'M', 2592000, False), ('年', 'Y', 31536000, False)]
    n_checked, bad = 0, []
    for n in range(1, 31):
        for word, u, secs, is_time in units:
            for text, count in ((('%d%s' % (n, word)), n), ('%d%s半' % (n, word), n + 0.5), ('%d.5%s' % (n, word), n + 0.5)):
                rs = recognize_datetime(text, 'zh-cn', reference=_dt.datetime(2016, 11, 7, 10, 30))
                if not (len(rs) == 1 and rs[0].text == text and rs[0].type_name == 'datetimeV2.duration'):
                    continue
                n_checked += 1
                v = rs[0].resolution['values'][0]
                cnt = ('%d' % count) if count == int(count) else ('%s' % count)
                want_tx = 'P' + ('T' if is_time else '') + cnt + u
                want_val = '%d' % int(count * secs)
                if v.get('timex') != want_tx or v.get('value') != want_val:
                    bad.append((text, v.get('timex'), v.get('value'), want_tx, want_val))
    if bad:
        return {'state': 'counterexample', 'cex': {'text': bad[0][0]}, 'detail': '%d durations with a wrong TIMEX / value, first (text, timex, value, expected timex, expected value): %r' % (len(bad), bad[:4]), 'queries': n_checked}
    return {'state': 'discharged', 'detail': '%d duration texts' % n_checked, 'queries': n_checked, 'sample': {'texts': n_checked}}


def zh_durations_api__replay(slice_, cex):
    r = zh_durations_api(slice_, 0)
    return {'reproduced': r['state'] == 'counterexample', 'detail': r['detail']}
