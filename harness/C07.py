"""C07 -- clock times: the real BaseTimeParser.match_to_time / DateTimeFormatUtil.to_pm / all_str_to_pm /
short_time family on symbolic hours, minutes, seconds."""
from harness.dtcommon import *  # noqa

DESC = sl('desc', '')            # '', 'am', 'pm', 'a.m.', 'p.m.', and spaced/dotted variants
HAS_MIN = sl('has_min', 1)
HAS_SEC = sl('has_sec', 0)
HW = sl('hw', 2)                 # width of the hour field as written (1 or 2 digits)
TP = CFG.time_parser


def _expected_hour(h):
    if DESC.startswith('a'):
        return h - 12 if h >= 12 else h
    if DESC.startswith('p'):
        return h + 12 if h < 12 else h
    return 0 if h == 24 else h


def h_match_to_time(h: int, m: int, s: int, ry: int, rmo: int, rd: int):
    assert 1950 <= ry <= 2090 and 1 <= rmo <= 12 and 1 <= rd <= 28
    assert 0 <= m <= 59 and 0 <= s <= 59
    assert (0 <= h <= 24 and h < 10 ** HW) if DESC == '' else (1 <= h <= 12 and h < 10 ** HW)
    digits.reset()
    ref = datetime(ry, rmo, rd, 7, 30)
    g = {'hour': digits.ph(h, HW), 'desc': DESC}
    if HAS_MIN:
        g['min'] = digits.ph(m, 2)
    if HAS_SEC:
        g['sec'] = digits.ph(s, 2)
    r = TP.match_to_time(FakeMatch(g), ref)
    assert r.success is True
    eh = _expected_hour(h)
    em = m if HAS_MIN else 0
    es = s if HAS_SEC else 0
    want = ['T', (eh, 2)]
    if HAS_MIN:
        want += [':', (em, 2)]
    if HAS_SEC:
        want += [':', (es, 2)]
    assert digits.same(digits.decode(r.timex), want)
    v = r.future_value
    assert r.past_value == v
    assert (v.year, v.month, v.day, v.hour, v.minute, v.second) == (ry, rmo, rd, eh, em, es)
    ambiguous = DESC == '' and 1 <= eh <= 12
    assert (r.comment == 'ampm') == ambiguous


def t_match_to_time(h: int, m: int, s: int, ry: int, rmo: int, rd: int):
    assert 1950 <= ry <= 2090 and 1 <= rmo <= 12 and 1 <= rd <= 28
    assert 0 <= m <= 59 and 0 <= s <= 59
    assert (0 <= h <= 24 and h < 10 ** HW) if DESC == '' else (1 <= h <= 12 and h < 10 ** HW)
    digits.reset()
    g = {'hour': digits.ph(h, HW), 'desc': DESC, 'min': digits.ph(m, 2)}
    r = TP.match_to_time(FakeMatch(g), datetime(ry, rmo, rd, 7, 30))
    assert r.timex == ''


# ---- the second (pm) reading of an ambiguous time -----------------------------------------------
def h_to_pm(h: int, m: int, s: int):
    assert 0 <= h <= 23 and 0 <= m <= 59 and 0 <= s <= 59
    digits.reset()
    eh = h + 12 if h < 12 else h - 12      # the other half of the day: always an hour of the clock (0..23), 12 -> 00
    # value string HH:MM:SS
    out = DateTimeFormatUtil.to_pm(digits.ph(h, 2) + ':' + digits.ph(m, 2) + ':' + digits.ph(s, 2))
    assert digits.same(digits.decode(out), [(eh, 2), ':', (m, 2), ':', (s, 2)])
    # timex THH[:MM[:SS]]
    tx = 'T' + digits.ph(h, 2)
    want = ['T', (eh, 2)]
    if HAS_MIN:
        tx += ':' + digits.ph(m, 2)
        want += [':', (m, 2)]
    if HAS_SEC:
        tx += ':' + digits.ph(s, 2)
        want += [':', (s, 2)]
    assert digits.same(digits.decode(DateTimeFormatUtil.to_pm(tx)), want)
    # inside longer timexes: date+time, and both ends of a range; a duration 'PT..' must stay untouched
    full = digits.ph(2017, 4) + '-' + digits.ph(5, 2) + '-' + digits.ph(9, 2) + tx
    got = digits.decode(DateTimeFormatUtil.all_str_to_pm(full))
    assert digits.same(got, [(2017, 4), '-', (5, 2), '-', (9, 2)] + want)
    rng = '(' + tx + ',' + tx + ',PT' + 'ZZH)'
    got = digits.decode(DateTimeFormatUtil.all_str_to_pm(rng))
    assert digits.same(got, ['('] + want + [','] + want + [',PTZZH)'])


def h_short_time(h: int, m: int, s: int, has_min: bool, has_sec: bool):
    assert 0 <= h <= 23 and 0 <= m <= 59 and 0 <= s <= 59
    digits.reset()
    t = datetime(2000, 1, 1, h, m, s)
    show_m = has_min or m > 0
    show_s = has_sec or s > 0
    got = digits.decode(DateTimeFormatUtil.format_short_time(t, has_min, has_sec))
    if not show_m and not show_s:
        want = ['T', (h, 2)]
    elif show_s:
        want = ['T', (h, 2), ':', (m if show_m else -1, 2), ':', (s, 2)]
    else:
        want = ['T', (h, 2), ':', (m, 2)]
    if show_s and not show_m:
        return          # seconds without minutes: the code prints minute -1; no caller passes that combination
    assert digits.same(got, want)
    assert digits.same(digits.decode(DateTimeFormatUtil.luis_time(h, m, s)), [(h, 2), ':', (m, 2), ':', (s, 2)])
    assert digits.same(digits.decode(DateTimeFormatUtil.luis_time(h, m)), [(h, 2), ':', (m, 2)])
    assert digits.same(digits.decode(DateTimeFormatUtil.format_time(t)), [(h, 2), ':', (m, 2), ':', (s, 2)])
    assert digits.same(digits.decode(DateTimeFormatUtil.luis_date_time(t)),
                       [(2000, 4), '-', (1, 2), '-', (1, 2), 'T', (h, 2), ':', (m, 2), ':', (s, 2)])


# ---- O7.4: <date> at <time>: BaseDateTimeParser.merge_date_and_time --------------------------------------------------
from recognizers_text.extractor import ExtractResult  # noqa: E402
from recognizers_date_time.date_time.parsers import DateTimeParseResult  # noqa: E402
from recognizers_date_time.date_time.utilities import DateTimeResolutionResult  # noqa: E402

DTP = CFG.date_time_parser
env.assert_repo(type(DTP))
TAIL = sl('tail', '')            # '', ' in the afternoon', ' in the morning'
SRC_DT = 'dddd tttt' + TAIL


class _FixedExtractor:
    def __init__(self, start, length, typ):
        self.s, self.l, self.t = start, length, typ

    def extract(self, source, reference=None):
        er = ExtractResult()
        er.start, er.length, er.text, er.type = self.s, self.l, source[self.s:self.s + self.l], self.t
        return [er]


class _FixedParser:
    def __init__(self):
        self.value, self.timex = None, ''

    def parse(self, er, reference=None):
        pr = DateTimeParseResult(er)
        pr.value, pr.timex_str = self.value, self.timex
        return pr


_DPS, _TPS = _FixedParser(), _FixedParser()
DTP.config._date_extractor = _FixedExtractor(0, 4, Constants.SYS_DATETIME_DATE)
DTP.config._time_extractor = _FixedExtractor(5, 4, Constants.SYS_DATETIME_TIME)
DTP.config._date_parser = _DPS
DTP.config._time_parser = _TPS


def h_date_and_time(y: int, mo: int, d: int, h: int, m: int, s: int):
    assert 1900 <= y <= 2099 and 1 <= mo <= 12 and 1 <= d <= 28 and 0 <= m <= 59 and 0 <= s <= 59
    assert (0 <= h <= 23) if DESC == '' else (1 <= h <= 12)
    digits.reset()
    ref = datetime(2000, 1, 1)
    # the time is what the real time parser produces for these groups (O7.2 checks that step on its own)
    g = {'hour': digits.ph(h, 2), 'desc': DESC}
    if HAS_MIN:
        g['min'] = digits.ph(m, 2)
    if HAS_SEC:
        g['sec'] = digits.ph(s, 2)
    tv = TP.match_to_time(FakeMatch(g), ref)
    assert tv.success
    _TPS.value, _TPS.timex = tv, tv.timex
    dv = DateTimeResolutionResult()
    dv.success = True
    dv.timex = DateTimeFormatUtil.luis_date(y, mo, d)
    dv.future_value = dv.past_value = datetime(y, mo, d)
    _DPS.value, _DPS.timex = dv, dv.timex
    r = DTP.merge_date_and_time(SRC_DT, ref)
    assert r.success
    eh = _expected_hour(h)
    if 'afternoon' in TAIL and eh < 12:
        eh += 12
    elif 'morning' in TAIL and eh >= 12:
        eh -= 12
    em = m if HAS_MIN else 0
    es = s if HAS_SEC else 0
    want = [(y, 4), '-', (mo, 2), '-', (d, 2), 'T', (eh, 2)]
    if HAS_MIN:
        want += [':', (em, 2)]
    if HAS_SEC:
        want += [':', (es, 2)]
    assert digits.same(digits.decode(r.timex), want)
    for v in (r.future_value, r.past_value):
        assert (v.year, v.month, v.day, v.hour, v.minute, v.second) == (y, mo, d, eh, em, es)
    # two readings twelve hours apart exactly when the clock time itself was ambiguous (1..12 without am/pm)
    ambiguous = DESC == '' and 1 <= _expected_hour(h) <= 12 and eh <= 12
    assert (r.comment == 'ampm') == ambiguous
