"""C04 -- spelled-out cardinals and ordinals: the real BaseNumberParser.__get_int_value (English configuration) executed on token
lists whose number words are placeholders with symbolic values (ones 1..9, teens 10..19, tens 20..90), so one run of a token
*shape* decides every number of that shape.  Shapes are produced by an independent spelling grammar and each is validated
against the real tokenising regex on a concrete instance."""
import sys

from harness.common import *  # noqa
from harness import symdec
from lib.symx import assume
from recognizers_number.number.parsers import BaseNumberParser
from recognizers_number.number.english.parsers import EnglishNumberParserConfiguration

PARSERS = sys.modules['recognizers_number.number.parsers']
env.assert_repo(PARSERS, EnglishNumberParserConfiguration)
ENGINE = os.environ.get('VERIF_ENGINE', 'native')
PARSER = BaseNumberParser(EnglishNumberParserConfiguration())
PARSER.config._cardinal_number_map = dict(PARSER.config.cardinal_number_map)
PARSER.config._ordinal_number_map = dict(PARSER.config.ordinal_number_map)
GET_INT = PARSER._BaseNumberParser__get_int_value
if ENGINE == 'sx':
    PARSERS.Decimal = symdec.SymDec
ROUND = ['', 'thousand', 'million', 'billion', 'trillion']
ORD_ROUND = {'hundred': 'hundredth', 'thousand': 'thousandth', 'million': 'millionth', 'billion': 'billionth', 'trillion': 'trillionth'}
ONES = ['zero', 'one', 'two', 'three', 'four', 'five', 'six', 'seven', 'eight', 'nine']
TEENS = ['ten', 'eleven', 'twelve', 'thirteen', 'fourteen', 'fifteen', 'sixteen', 'seventeen', 'eighteen', 'nineteen']
TENS = ['', '', 'twenty', 'thirty', 'forty', 'fifty', 'sixty', 'seventy', 'eighty', 'ninety']
O_ONES = ['', 'first', 'second', 'third', 'fourth', 'fifth', 'sixth', 'seventh', 'eighth', 'ninth']
O_TEENS = ['tenth', 'eleventh', 'twelfth', 'thirteenth', 'fourteenth', 'fifteenth', 'sixteenth', 'seventeenth', 'eighteenth', 'nineteenth']
O_TENS = ['', '', 'twentieth', 'thirtieth', 'fortieth', 'fiftieth', 'sixtieth', 'seventieth', 'eightieth', 'ninetieth']
PATTERNS = ['u', 't', 'd', 'du', 'h', 'hu', 'ht', 'hd', 'hdu', 'hAu', 'hAt', 'hAd', 'hAdu']     # A = 'and' after the hundreds


def group_tokens(pat, gi):
    """token kinds of one three-digit group: ('u', k) ones, ('t', k) teen, ('d', k) tens, 'hundred', 'and'"""
    out = []
    k = 0
    for ch in pat:
        if ch == 'h':
            out += [('u', (gi, 'h')), 'hundred']
        elif ch == 'A':
            out.append('and')
        else:
            out.append((ch, (gi, ch)))
    return out


def shape_tokens(shape):
    """shape = list of (group index, pattern) from the highest group down; optional 'and' before a final group below 100"""
    toks = []
    for n, (gi, pat) in enumerate(shape):
        if n > 0 and n == len(shape) - 1 and gi == 0 and 'h' not in pat and shape_and(shape):
            toks.append('and')
        toks += group_tokens(pat, gi)
        if gi > 0:
            toks.append(ROUND[gi])
    return toks


def shape_and(shape):
    return bool(shape and shape[0] == 'AND')


def all_shapes(max_groups):
    import itertools
    out = []
    for r in range(1, max_groups + 1):
        for gis in itertools.combinations(range(4, -1, -1), r):
            for pats in itertools.product(PATTERNS, repeat=r):
                out.append([(g, p) for g, p in zip(gis, pats)])
    return out


SHAPES = sl('shapes', [[(0, 'hAdu')]])
ORDINAL = sl('ordinal', 0)
KIND_RANGE = {'u': (1, 9), 't': (10, 19), 'd': (2, 9)}


def instantiate(shape, vals, ordinal):
    """-> (token list with placeholder words registered in the maps, expected value)"""
    toks = []
    total = 0
    vi = 0
    cm, om = PARSER.config._cardinal_number_map, PARSER.config._ordinal_number_map
    items = []
    for n, (gi, pat) in enumerate(shape):
        gval = 0
        gt = group_tokens(pat, gi)
        for t in gt:
            if isinstance(t, tuple):
                kind = t[0]
                v = vals[vi]
                vi += 1
                lo, hi = KIND_RANGE[kind]
                assume(lo <= v and v <= hi)
                val = v * 10 if kind == 'd' else v
                is_h = t[1][1] == 'h'
                gval = gval + (val * 100 if is_h else val)
                items.append(('num', val, kind))
            else:
                items.append(('word', t))
        if gi > 0:
            items.append(('word', ROUND[gi]))
        total = total + gval * 1000 ** gi
    # ordinal: the last token becomes its ordinal form
    for i, it in enumerate(items):
        last = i == len(items) - 1
        if it[0] == 'num':
            key = '«n%d»' % i
            if ordinal and last:
                om[key] = it[1]
                cm.pop(key, None)
            else:
                cm[key] = it[1]
                om.pop(key, None)
            toks.append(key)
        else:
            w = it[1]
            if ordinal and last:
                w = ORD_ROUND[w]
            toks.append(w)
    return toks, total, vi


def h_int_value(si: int, v0: int, v1: int, v2: int, v3: int, v4: int, v5: int, v6: int, v7: int, v8: int, v9: int, v10: int, v11: int, v12: int, v13: int, v14: int):
    assume(0 <= si < len(SHAPES))
    shape = [tuple(x) for x in SHAPES[int(si)]]
    vals = [v0, v1, v2, v3, v4, v5, v6, v7, v8, v9, v10, v11, v12, v13, v14]
    toks, want, used = instantiate(shape, vals, ORDINAL)
    assume(all(v == 0 for v in vals[used:]))
    got = GET_INT(toks)
    if ENGINE == 'sx':
        assert isinstance(got, symdec.SymDec) and got.exp == 0
        assert got.num == want, (shape,)
    else:
        assert int(got) == want, (shape, toks, got, want)


def t_int_value(si: int, v0: int, v1: int, v2: int, v3: int, v4: int, v5: int, v6: int, v7: int, v8: int, v9: int, v10: int, v11: int, v12: int, v13: int, v14: int):
    assume(0 <= si < len(SHAPES))
    shape = [tuple(x) for x in SHAPES[int(si)]]
    vals = [v0, v1, v2, v3, v4, v5, v6, v7, v8, v9, v10, v11, v12, v13, v14]
    toks, want, used = instantiate(shape, vals, ORDINAL)
    assume(all(v == 0 for v in vals[used:]))
    got = GET_INT(toks)
    assert (got.num if ENGINE == 'sx' else int(got)) == 0


def validate_shapes(slice_, timeout):
    """validation (not a verdict): for a concrete instance of every shape, the real tokenising regex applied to the standard spelling
    yields exactly the token list the harness feeds to __get_int_value, and the real pipeline returns the number"""
    import regex
    import random
    rnd = random.Random(5)
    n = 0
    for shape in SHAPES:
        shape = [tuple(x) for x in shape]
        words = []
        expect = 0
        for (gi, pat) in shape:
            gval = 0
            for t in group_tokens(pat, gi):
                if isinstance(t, tuple):
                    k = rnd.randint(*KIND_RANGE[t[0]])
                    w = {'u': ONES, 't': None, 'd': TENS}[t[0]]
                    word = TEENS[k - 10] if t[0] == 't' else w[k]
                    val = k * 10 if t[0] == 'd' else k
                    gval += val * 100 if t[1][1] == 'h' else val
                    words.append(word)
                else:
                    words.append(t)
            if gi > 0:
                words.append(ROUND[gi])
            expect += gval * 1000 ** gi
        if ORDINAL:
            last = words[-1]
            if last in ORD_ROUND:
                words[-1] = ORD_ROUND[last]
            elif last in ONES:
                words[-1] = O_ONES[ONES.index(last)]
            elif last in TEENS:
                words[-1] = O_TEENS[TEENS.index(last)]
            else:
                words[-1] = O_TENS[TENS.index(last)]
        # standard written form: hyphen between tens and ones
        text = ' '.join(words)
        for d in TENS[2:]:
            for u in ONES[1:] + O_ONES[1:]:
                text = text.replace(d + ' ' + u, d + '-' + u)
        toks = [m.group().lower() for m in regex.finditer(PARSER.text_number_regex, text)]
        if toks != words:
            return {'state': 'counterexample', 'cex': {'text': text}, 'detail': 'tokeniser gives %r for %r, the harness assumes %r' % (toks, text, words), 'queries': n}
        got = int(GET_INT(toks))
        if got != expect:
            return {'state': 'counterexample', 'cex': {'text': text}, 'detail': '%r -> %r, expected %r' % (text, got, expect), 'queries': n}
        n += 1
    return {'state': 'discharged', 'detail': '%d shapes validated on a concrete instance' % n, 'queries': n, 'sample': {'shapes': n}}


def validate_shapes__replay(slice_, cex):
    r = validate_shapes(slice_, 0)
    return {'reproduced': r['state'] == 'counterexample', 'detail': r['detail']}
