"""C03 -- numeric literals: the real BaseNumberParser._get_digital_value (every culture's separator configuration) executed
on numerals whose digits are symbolic (symx + harness/symdec.py proxies); the canonical output formatter CultureInfo.format
checked by CrossHair on symbolic decimal strings."""
import sys

from harness.common import *  # noqa
from harness import symdec
from lib.symx import assume
from recognizers_number.number.parsers import BaseNumberParser
from recognizers_number.culture import CultureInfo, SUPPORTED_CULTURES

PARSERS = sys.modules['recognizers_number.number.parsers']
env.assert_repo(PARSERS, CultureInfo)
ENGINE = os.environ.get('VERIF_ENGINE', 'native')
CULTURE = sl('culture', 'en-us')
SHAPE = sl('shape', {'groups': [3], 'frac': 0, 'neg': 0, 'grouped': 0})
POWER = sl('power', 1)           # the multiplier _digit_number_parse collected from a k/M/G/T suffix (a power of ten)


def make_parser():
    lang = CULTURE.split('-')[0]
    import importlib
    if lang in ('zh', 'ja'):
        # digit literals of the CJK cultures go through CJKNumberParser -> the inherited _digit_number_parse / _get_digital_value
        from recognizers_number.number.cjk_parsers import CJKNumberParser
        modname = {'zh': 'chinese', 'ja': 'japanese'}[lang]
        m = importlib.import_module('recognizers_number.number.%s.parsers' % modname)
        cfg_cls = getattr(m, modname.capitalize() + 'NumberParserConfiguration')
        try:
            return CJKNumberParser(cfg_cls(CultureInfo(CULTURE)))
        except TypeError:
            return CJKNumberParser(cfg_cls())
    modname = {'en': 'english', 'es': 'spanish', 'fr': 'french', 'pt': 'portuguese', 'de': 'german', 'it': 'italian', 'nl': 'dutch'}[lang]
    m = importlib.import_module('recognizers_number.number.%s.parsers' % modname)
    cfg_cls = [getattr(m, n) for n in dir(m) if n.endswith('NumberParserConfiguration') and n.lower().startswith(modname[:4])][0]
    return BaseNumberParser(cfg_cls(CultureInfo(CULTURE)))


PARSER = make_parser()
if ENGINE == 'sx':
    PARSERS.Decimal = symdec.SymDec
    PARSERS.getcontext = symdec.getcontext
FMT = SUPPORTED_CULTURES.get(CULTURE)
# the culture's own marks: what the output formatter uses is also what the culture writes
if FMT is None:
    class FMT:                       # zh-cn has no long-format entry: numerals are written with ',' groups and '.' decimals and printed by str()
        decimals_mark, thousands_mark = '.', ','
DEC_MARK = FMT.decimals_mark
GRP_MARK = FMT.thousands_mark
OWN_DEC = DEC_MARK
if SHAPE.get('swap'):
    # the other convention ("1.234,56" in en-us): cultures whose configuration is is_multi_decimal_separator_culture read a numeral
    # with BOTH marks by their order; only shapes with both marks are built this way
    DEC_MARK, GRP_MARK = GRP_MARK, DEC_MARK
    if not (PARSER.config.is_multi_decimal_separator_culture and SHAPE.get('grouped') and SHAPE.get('frac') and len(SHAPE['groups']) > 1):
        raise env.HarnessError('swapped-convention shape outside its domain')


def build(ds):
    """the numeral text for the shape: integer digits in groups (leading group first), optional fraction, optional leading '-'"""
    items = []
    k = 0
    if SHAPE.get('neg'):
        items.append('-')
    groups = SHAPE['groups']
    for gi, g in enumerate(groups):
        if gi > 0 and SHAPE.get('grouped'):
            items.append(GRP_MARK)
        for _ in range(g):
            items.append(symdec.SymChar(ds[k]) if ENGINE == 'sx' else str(ds[k]))
            k += 1
    nint = k
    if SHAPE.get('frac'):
        items.append(DEC_MARK)
        for _ in range(SHAPE['frac']):
            items.append(symdec.SymChar(ds[k]) if ENGINE == 'sx' else str(ds[k]))
            k += 1
    return items, nint, k


NDIG = sum(SHAPE['groups']) + SHAPE.get('frac', 0)


def h_digital_value(d0: int, d1: int, d2: int, d3: int, d4: int, d5: int, d6: int, d7: int, d8: int, d9: int, d10: int, d11: int, d12: int, d13: int, d14: int):
    ds = [d0, d1, d2, d3, d4, d5, d6, d7, d8, d9, d10, d11, d12, d13, d14]
    assume(all(0 <= d for d in ds[:NDIG]) and all(d <= 9 for d in ds[:NDIG]) and all(d == 0 for d in ds[NDIG:]))
    # a grouped numeral does not start with 0 (e.g. "0,234" is not a grouped thousand); a plain integer has no superfluous leading zero
    assume(NDIG == 1 or SHAPE['groups'] == [1] or d0 >= 1)
    items, nint, n = build(ds)
    frac = SHAPE.get('frac', 0)
    # the number written: sum of digits x place values, as an integer scaled by 10**frac
    want = 0
    for i in range(n):
        want = want * 10 + ds[i]
    if SHAPE.get('neg'):
        want = -want
    if ENGINE == 'sx':
        got = PARSER._get_digital_value(symdec.SymText(items), POWER)
        assert isinstance(got, symdec.SymDec)
        assert got.exp >= -frac
        assert got.scaled(-frac) == want * POWER
    else:
        from decimal import Decimal
        got = PARSER._get_digital_value(''.join(items), POWER)
        assert got == Decimal(int(want)).scaleb(-frac) * POWER


def t_digital_value(d0: int, d1: int, d2: int, d3: int, d4: int, d5: int, d6: int, d7: int, d8: int, d9: int, d10: int, d11: int, d12: int, d13: int, d14: int):
    ds = [d0, d1, d2, d3, d4, d5, d6, d7, d8, d9, d10, d11, d12, d13, d14]
    assume(all(0 <= d for d in ds[:NDIG]) and all(d <= 9 for d in ds[:NDIG]) and all(d == 0 for d in ds[NDIG:]))
    items, nint, n = build(ds)
    got = PARSER._get_digital_value(symdec.SymText(items) if ENGINE == 'sx' else ''.join(items), 1)
    assert got == 0


# ---- C02 at unit level: a parser instance serves many requests; the value of a numeral must not depend on what it parsed before ----
FIRSTS = sl('firsts', None)


def _first_texts():
    own_d, own_g = FMT.decimals_mark, FMT.thousands_mark
    out = ['123', '1' + own_g + '234' + own_g + '567', '1' + own_d + '5', '1' + own_g + '234' + own_d + '56', '-12', '1' + own_g + '234', '0' + own_d + '25']
    if PARSER.config.is_multi_decimal_separator_culture:
        out += ['1' + own_d + '234' + own_g + '56', '12' + own_d + '345' + own_d + '678' + own_g + '9', '1' + own_d + '234']
    return out


def h_history_digital(d0: int, d1: int, d2: int, d3: int, d4: int, d5: int, d6: int, d7: int, d8: int, d9: int, d10: int, d11: int, d12: int, d13: int, d14: int):
    """one parser object (as cached in the process-wide model cache) first parses each of a set of numerals that drive every
    separator branch of the kernel, then the numeral of this slice with symbolic digits: the value is the number written"""
    ds = [d0, d1, d2, d3, d4, d5, d6, d7, d8, d9, d10, d11, d12, d13, d14]
    assume(all(0 <= d for d in ds[:NDIG]) and all(d <= 9 for d in ds[:NDIG]) and all(d == 0 for d in ds[NDIG:]))
    assume(NDIG == 1 or SHAPE['groups'] == [1] or d0 >= 1)
    parser = make_parser()
    items, nint, n = build(ds)
    frac = SHAPE.get('frac', 0)
    want = 0
    for i in range(n):
        want = want * 10 + ds[i]
    if SHAPE.get('neg'):
        want = -want
    for first in _first_texts():
        parser._get_digital_value(first, 1)
        if ENGINE == 'sx':
            got = parser._get_digital_value(symdec.SymText(items), 1)
            assert got.exp >= -frac and got.scaled(-frac) == want, first
        else:
            from decimal import Decimal
            got = parser._get_digital_value(''.join(items), 1)
            assert got == Decimal(int(want)).scaleb(-frac), first


# ---- the canonical output: CultureInfo.format (CrossHair, symbolic decimal strings) --------------------------------------------
def _reference_format(s, dec_mark):
    """what the resolved value must look like: the number str(Decimal) denotes, no grouping, the culture's decimal mark,
    no superfluous trailing fraction zeros"""
    neg = s.startswith('-')
    body = s[1:] if neg else s
    if '.' in body:
        ip, fp = body.split('.')
        fp = fp.rstrip('0')
    else:
        ip, fp = body, ''
    out = ('-' if neg else '') + ip + ((dec_mark + fp) if fp else '')
    return out


def h_format(neg: bool, ip: str, fp: str):
    assert 1 <= len(ip) <= 4 and len(fp) <= 3 and all(c in '0123456789' for c in ip) and all(c in '0123456789' for c in fp)
    assert len(ip) == 1 or ip[0] != '0'
    s = ('-' if neg else '') + ip + (('.' + fp) if fp else '')
    out = CultureInfo(CULTURE).format(s)
    assert out == _reference_format(s, DEC_MARK)
    assert GRP_MARK not in out or GRP_MARK == DEC_MARK


# ---- percentage parser: inner number resolution + '%' exactly once ---------------------------------------------------------------
from recognizers_text.extractor import ExtractResult  # noqa: E402
from recognizers_text.parser import ParseResult  # noqa: E402
from recognizers_number.number.parsers import BasePercentageParser  # noqa: E402
POOL = ['12', '-3', '1,5', '1.5', '0', '1E+21', '12%', ' 7 ', '3 %']


def h_percentage_parser(i: int, j: int, has_list: bool):
    assume(0 <= i < len(POOL) and 0 <= j <= 6)
    inner_res = POOL[int(i)]
    pp = BasePercentageParser(PARSER.config)
    captured = {}

    def fake_super_parse(self, source):
        captured['text'], captured['data'] = source.text, source.data
        pr = ParseResult(source)
        pr.value, pr.resolution_str = 1, inner_res
        return pr
    orig = BaseNumberParser.parse
    BaseNumberParser.parse = fake_super_parse
    try:
        er = ExtractResult()
        er.start, er.length, er.text, er.type = int(j), 5, '12 % ', 'percent'
        if has_list:
            inner = ExtractResult()
            inner.data = 'Num'
            er.data = ['12', inner]
        out = pp.parse(er)
    finally:
        BaseNumberParser.parse = orig
    want = inner_res.strip()
    assert out.resolution_str == (want if want.endswith('%') else want + '%')
    assert out.resolution_str.count('%') == 1
    assert out.text == '12 % ' and out.start == j and out.length == 5          # the span and text of the whole percentage are kept
    if has_list:
        assert captured['text'] == '12' and captured['data'] == 'Num'           # the inner number text is what gets parsed


def validate_model(slice_, timeout):
    """validation of the proxy model and of the oracle (not a verdict): the real kernel with real Decimals on random digits of this shape"""
    import random
    rnd = random.Random(3)
    n = 0
    for _ in range(150):
        ds = [rnd.randint(0, 9) for _ in range(15)]
        if NDIG > 1 and SHAPE['groups'] != [1] and ds[0] == 0:
            ds[0] = rnd.randint(1, 9)
        for k in range(NDIG, 15):
            ds[k] = 0
        try:
            h_digital_value(*ds)
        except AssertionError as e:
            return {'state': 'counterexample', 'cex': {'digits': ds}, 'detail': 'real kernel disagrees with the written number on digits %r (%s)' % (ds[:NDIG], e), 'queries': n}
        n += 1
    return {'state': 'discharged', 'detail': '%d concrete numerals agree' % n, 'queries': n, 'sample': {'shape': SHAPE, 'culture': CULTURE}}


def validate_model__replay(slice_, cex):
    try:
        h_digital_value(*cex['digits'])
    except AssertionError as e:
        return {'reproduced': True, 'detail': repr(e)}
    return {'reproduced': False, 'detail': 'passes'}


KNOWN_F58 = sl('f58', '')


# ---- the multiplier step of _digit_number_parse (cut the k / M / thousand / lakh / mil ... token out, collect its power) ------------------
def multiplier_cut(slice_, timeout):
    """For every multiplier token of the culture's round-number map that its digital_number_regex accepts, with and without a blank
    in front, behind numerals of every separator layout of the culture: _digit_number_parse gives exactly what _get_digital_value gives
    for the bare numeral with the token's power (O3.2 decides _get_digital_value for all digits; this step never looks at the digits, so
    one numeral per layout stands for the layout -- finite, exhaustive over tokens x layouts; not a solver verdict on its own)."""
    import regex as _re
    from recognizers_text.extractor import ExtractResult
    from recognizers_number import recognize_number
    cfg = PARSER.config
    toks = [t for t in cfg.round_number_map if _re.fullmatch(cfg.digital_number_regex, t)]
    g, d = GRP_MARK, OWN_DEC
    numerals = ['7', '12', '1234', '1' + g + '234', '12' + g + '345' + g + '678', '1' + d + '5', '1' + g + '234' + d + '5', '0' + d + '25']
    n, bad = 0, []
    for tok in toks:
        for num in numerals:
            for blank in ('', ' ', '  '):
                text = num + blank + tok
                if blank == '' and CULTURE[:2] in ('de', 'nl') and len(tok) > 1 and KNOWN_F58 != 'only':
                    continue          # digit + multiplier WORD written together in German / Dutch: region of finding F58
                if KNOWN_F58 == 'only' and not (blank == '' and len(tok) > 1):
                    continue
                rs = recognize_number(text, CULTURE)
                if not (len(rs) == 1 and rs[0].text == text):
                    continue          # not a literal of the culture (e.g. no word boundary between digit and word): nothing to judge
                want = PARSER._get_digital_value(num, cfg.round_number_map[tok])
                exp = cfg.culture_info.format(want) if cfg.culture_info is not None else str(want)
                n += 1
                if rs[0].resolution['value'] != exp:
                    bad.append((text, rs[0].resolution['value'], exp))
                    continue
                er = ExtractResult()
                er.start, er.length, er.text, er.type = 0, len(text), text, 'builtin.num'
                got = PARSER._digit_number_parse(er).value
                if got != want:
                    bad.append(('parser ' + text, str(got), str(want)))
    if bad:
        return {'state': 'counterexample', 'cex': {'first': repr(bad[0])}, 'detail': 'multiplier token not cut out cleanly: (text, got, expected) %r' % (bad[:60],), 'queries': n}
    return {'state': 'discharged', 'detail': '%d texts (%d tokens x %d numerals x 3 spacings, + API where one entity)' % (n, len(toks), len(numerals)), 'queries': n, 'sample': {'tokens': toks[:12]}}


def multiplier_cut__replay(slice_, cex):
    r = multiplier_cut(slice_, 0)
    return {'reproduced': r['state'] == 'counterexample', 'detail': r['detail']}


# ---- digit literals of zh-cn / ja-jp through the public API (small-scope enumeration over layouts; not a solver verdict) -----------------------------
def cjk_digit_layouts(slice_, timeout):
    """comma-grouped integers with 1..5 groups, optional sign, optional decimals, half and full width: one number entity over the literal with that value"""
    from recognizers_number import recognize_number
    n, bad = 0, []
    for groups in (['7'], ['12'], ['1', '234'], ['12', '345'], ['999', '999'], ['1', '234', '567'], ['12', '345', '678'], ['1', '000', '000'], ['1', '234', '567', '890'], ['1', '000', '000', '000', '000']):
        for sign in ('', '-'):
            for frac in ('', '.5', '.89'):
                for plain in (False, True):
                    body = ''.join(groups) if plain else ','.join(groups)
                    text = sign + body + frac
                    want = sign + ''.join(groups) + frac
                    for carrier in ('%s', 'x %s y'):
                        q = carrier % text
                        rs = recognize_number(q, CULTURE)
                        n += 1
                        got = [(r.text, r.resolution.get('value')) for r in rs]
                        if got != [(text, want)]:
                            bad.append((q, got, want))
    if bad:
        return {'state': 'counterexample', 'cex': {'text': bad[0][0]}, 'detail': '%d digit literals not recognised as one number, first (query, got, expected value): %r' % (len(bad), bad[:4]), 'queries': n}
    return {'state': 'discharged', 'detail': '%d literals (%s)' % (n, CULTURE), 'queries': n, 'sample': {'literals': n}}


def cjk_digit_layouts__replay(slice_, cex):
    r = cjk_digit_layouts(slice_, 0)
    return {'reproduced': r['state'] == 'counterexample', 'detail': r['detail']}
