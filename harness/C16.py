"""C16 -- tokenizers, trie and StringMatcher.  Strings are assembled from symbolic indices into a small alphabet of
character classes; symx enumerates the index space through the solver and the real code runs on each string."""
from harness.common import *  # noqa
from lib.symx import assume
from recognizers_text.matcher.simple_tokenizer import SimpleTokenizer
from recognizers_text.matcher.number_with_unit_tokenizer import NumberWithUnitTokenizer
from recognizers_text.matcher.string_matcher import StringMatcher
from recognizers_text.matcher.trie_tree import TrieTree
from recognizers_text.matcher.match_strategy import MatchStrategy

env.assert_repo(SimpleTokenizer, NumberWithUnitTokenizer, StringMatcher, TrieTree)

ALPHA = sl('alpha', ['a', 'B', '7', '$', ',', ' ', '中'])      # letter, letter, digit, currency sign, punctuation, space, CJK ideograph
ALPHA_X = ['a', 'B', '7', '$', ',', ' ', '中', 'カ', '한', ' ', '-']
if sl('wide'):
    ALPHA = ALPHA_X
LEN = sl('len', 4)
FIRST = sl('first', None)
UNIT = sl('unit', 0)


def _cjk(c, unit):
    u = ord(c)
    chinese = 0x4E00 <= u <= 0x9FBF or 0x3400 <= u <= 0x4DBF
    japanese = 0x3040 <= u <= 0x30FF or 0xFF66 <= u <= 0xFF9D
    korean = 0xAC00 <= u <= 0xD7AF or 0x1100 <= u <= 0x11FF or 0x3130 <= u <= 0x318F or 0xFFB0 <= u <= 0xFFDC
    return chinese or japanese or (korean and not unit)


def reference_tokens(s, unit):
    """independent specification: maximal runs of word characters; every other non-space character is a token of its own;
    the unit tokenizer treats '$' as a word character and additionally splits between a digit and a letter/'$'"""
    def word(c):
        return (c.isalpha() or c.isdigit() or (unit and c == '$')) and not _cjk(c, unit)
    toks = []
    i = 0
    while i < len(s):
        c = s[i]
        if c.isspace():
            i += 1
        elif word(c):
            j = i + 1
            while j < len(s) and word(s[j]) and not s[j].isspace():
                if unit:
                    a, b = s[j - 1], s[j]
                    if (a.isdigit() != b.isdigit()) and (a.isdigit() or b.isdigit()):
                        break
                j += 1
            toks.append((i, j - i))
            i = j
        else:
            toks.append((i, 1))
            i += 1
    return toks


def build(idx):
    return ''.join(ALPHA[int(i)] for i in idx)


def h_tokenize(c0: int, c1: int, c2: int, c3: int, c4: int, c5: int):
    cs = [c0, c1, c2, c3, c4, c5][:LEN]
    assume(all(0 <= c < len(ALPHA) for c in cs) and (FIRST is None or c0 == FIRST))
    s = build(cs)
    tk = NumberWithUnitTokenizer() if UNIT else SimpleTokenizer()
    toks = tk.tokenize(s)
    got = [(t.start, t.length) for t in toks]
    # the statement: slices of the input, in order, no overlap, every non-space character exactly once
    pos = 0
    covered = [0] * len(s)
    for t in toks:
        assert t.length >= 1 and t.start >= pos and t.start + t.length <= len(s), (s, got)
        assert t.text == s[t.start:t.start + t.length], (s, got)
        assert t.end == t.start + t.length
        for k in range(t.start, t.start + t.length):
            covered[k] += 1
        pos = t.start + t.length
    for k, ch in enumerate(s):
        assert covered[k] == (0 if ch.isspace() else 1), (s, got)
    # class rules (CJK / punctuation single tokens, '$' glue, digit-letter split)
    assert got == reference_tokens(s, UNIT), (s, got, reference_tokens(s, UNIT))


def t_tokenize(c0: int, c1: int, c2: int, c3: int, c4: int, c5: int):
    cs = [c0, c1, c2, c3, c4, c5][:LEN]
    assume(all(0 <= c < len(ALPHA) for c in cs) and (FIRST is None or c0 == FIRST))
    assert len(SimpleTokenizer().tokenize(build(cs))) == 0


# ---- TrieTree on token lists ---------------------------------------------------------------------------------------
VOCAB = ['x', 'y', 'z']
P1 = sl('p1', 0)


def _phrase(code):
    """code 0..11 -> a phrase of 1 or 2 vocabulary tokens"""
    code = int(code)
    if code < 3:
        return [VOCAB[code]]
    code -= 3
    return [VOCAB[code // 3], VOCAB[code % 3]]


def h_trie(p1: int, p2: int, same_id: bool, q0: int, q1: int, q2: int, q3: int, qn: int):
    assume(p1 == P1 and 0 <= p2 < 12 and 0 <= qn <= 4)
    qs = [q0, q1, q2, q3][:int(qn)]
    assume(all(0 <= q < 3 for q in qs))
    phrases = [_phrase(p1), _phrase(p2)]
    ids = ['id0', 'id0' if same_id else 'id1']
    query = [VOCAB[int(q)] for q in qs]
    t = TrieTree()
    t.init(phrases, ids)
    got = sorted((m.start, m.length, tuple(sorted(set(m.canonical_values)))) for m in t.find(query))
    want = {}
    for p, i in zip(phrases, ids):
        for s in range(len(query) - len(p) + 1):
            if query[s:s + len(p)] == p:
                want.setdefault((s, len(p)), set()).add(i)
    want = sorted((s, l, tuple(sorted(v))) for (s, l), v in want.items())
    assert got == want, (phrases, ids, query, got, want)


# ---- StringMatcher.find on strings: offsets, text, ids ---------------------------------------------------------------
MS_ALPHA = ['a', 'b', ' ', '$', '1']
VALUES = sl('values', ['a', 'a b', 'b$', '1a'])


def h_string_matcher(c0: int, c1: int, c2: int, c3: int, c4: int, c5: int):
    cs = [c0, c1, c2, c3, c4, c5][:LEN]
    assume(all(0 <= c < len(MS_ALPHA) for c in cs) and (FIRST is None or c0 == FIRST))
    q = ''.join(MS_ALPHA[int(c)] for c in cs)
    tk = NumberWithUnitTokenizer() if UNIT else SimpleTokenizer()
    sm = StringMatcher(MatchStrategy.TrieTree, tk)
    sm.init(VALUES)
    got = sorted((m.start, m.length, m.text, tuple(sorted(set(m.canonical_values)))) for m in sm.find(q))
    qt = reference_tokens(q, UNIT)
    want = {}
    for v in VALUES:
        vt = [v[s:s + l] for (s, l) in reference_tokens(v, UNIT)]
        if not vt:
            continue
        for i in range(len(qt) - len(vt) + 1):
            if [q[s:s + l] for (s, l) in qt[i:i + len(vt)]] == vt:
                start = qt[i][0]
                end = qt[i + len(vt) - 1][0] + qt[i + len(vt) - 1][1]
                want.setdefault((start, end - start, q[start:end]), set()).add(v)
    want = sorted((s, l, t, tuple(sorted(v))) for (s, l, t), v in want.items())
    assert got == want, (q, got, want)
    # the dict form (canonical id -> spellings) finds the same occurrences with the canonical ids
    sm2 = StringMatcher(MatchStrategy.TrieTree, tk)
    sm2.init({'ID_' + v: [v] for v in VALUES})
    got2 = sorted((m.start, m.length, m.text, tuple(sorted(set(m.canonical_values)))) for m in sm2.find(q))
    assert got2 == [(s, l, t, tuple('ID_' + x for x in ids)) for (s, l, t, ids) in want], (q, got2)
    # a dict whose ids share spellings (the same spelling under several ids, and twice under one): every id of a spelling is reported
    shared = {'A': VALUES[:3], 'B': VALUES[1:], 'C': [VALUES[0], VALUES[0]]}
    ids_of = {}
    for k, vs in shared.items():
        for v in vs:
            ids_of.setdefault(v, set()).add(k)
    sm3 = StringMatcher(MatchStrategy.TrieTree, tk)
    sm3.init(shared)
    got3 = sorted((m.start, m.length, m.text, tuple(sorted(set(m.canonical_values)))) for m in sm3.find(q))
    want3 = [(s, l, t, tuple(sorted(set(i for x in vs for i in ids_of.get(x, ()))))) for (s, l, t, vs) in want]
    assert got3 == want3, (q, got3, want3)
