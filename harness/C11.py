"""C11 -- the resolution builder of BaseMergedParser only emits well-formed values: symx on symbolic dates/times
rendered by the real formatters; one slice per (type, modifier, which sides are valid)."""
from harness.dtcommon import *  # noqa
from lib.symx import assume
from recognizers_text.extractor import ExtractResult
from recognizers_date_time.date_time.parsers import DateTimeParseResult
from recognizers_date_time.date_time.utilities import DateTimeResolutionResult, DateTimeOptions
from recognizers_date_time.date_time.english.merged_parser_config import EnglishMergedParserConfiguration
from recognizers_date_time.date_time.base_merged import BaseMergedParser

MP = BaseMergedParser(EnglishMergedParserConfiguration(CFG), DateTimeOptions.NONE)
env.assert_repo(BaseMergedParser)
DTYPE = sl('dtype', 'date')
MOD = sl('mod', '')
FUT = sl('fut', 'valid')       # valid | min
PAST = sl('past', 'valid')
SAME = sl('same', 0)           # future and past are the same instant
KEYS = {'date': ('date',), 'time': ('time',), 'datetime': ('dateTime',), 'daterange': ('startDate', 'endDate'),
        'timerange': ('startTime', 'endTime'), 'datetimerange': ('startDateTime', 'endDateTime'), 'duration': ('duration',)}
SINGLE = ('date', 'time', 'datetime')


def _render(kind, dt):
    if kind in ('date', 'startDate', 'endDate'):
        return DateTimeFormatUtil.format_date(dt)
    if kind in ('time', 'startTime', 'endTime'):
        return DateTimeFormatUtil.format_time(dt)
    return DateTimeFormatUtil.format_date_time(dt)


def _check_shape(kind, s, dt):
    """the rendered value denotes exactly dt in the shape its type promises"""
    if kind in ('date', 'startDate', 'endDate'):
        assert digits.ymd(s) == (dt.year, dt.month, dt.day)
    elif kind in ('time', 'startTime', 'endTime'):
        assert digits.hms(s) == (dt.hour, dt.minute, dt.second)
    else:
        assert len(s) == 19 and s[10] == ' '
        assert digits.ymd(s[:10]) == (dt.year, dt.month, dt.day) and digits.hms(s[11:]) == (dt.hour, dt.minute, dt.second)


def h_resolution(y1: int, mo1: int, d1: int, h1: int, mi1: int, y2: int, mo2: int, d2: int, h2: int, mi2: int):
    assert 1900 <= y1 <= 2099 and 1 <= mo1 <= 12 and 1 <= d1 <= 28 and 0 <= h1 <= 23 and 0 <= mi1 <= 59
    assert 1900 <= y2 <= 2099 and 1 <= mo2 <= 12 and 1 <= d2 <= 28 and 0 <= h2 <= 23 and 0 <= mi2 <= 59
    digits.reset()
    a = datetime(y1, mo1, d1, h1, mi1, 7)
    b = a if SAME else datetime(y2, mo2, d2, h2, mi2, 9)
    if DTYPE in ('daterange', 'timerange', 'datetimerange') or not SAME:
        assume(a < b)
    if DTYPE == 'timerange' or DTYPE == 'time':
        assume(SAME or h1 != h2 or mi1 != mi2)
    if DTYPE in ('date', 'daterange'):
        assume(SAME or y1 != y2 or mo1 != mo2 or d1 != d2)
    keys = KEYS[DTYPE]
    val = DateTimeResolutionResult()
    val.success = True
    val.mod = MOD
    val.timex = 'TX'
    mn = DateUtils.min_value
    if DTYPE in ('datetime', 'datetimerange'):
        # a date-time on a non-existent date: the parsers combine the min-value DATE with the real time of day ('0001-01-01 03:30:00')
        mn = datetime(1, 1, 1, h2, mi2, 9)
    if DTYPE in SINGLE:
        # past candidate a, future candidate b
        fut_dt = mn if FUT == 'min' else b
        past_dt = mn if PAST == 'min' else a
        val.future_resolution = {keys[0]: _render(keys[0], fut_dt)}
        val.past_resolution = {keys[0]: _render(keys[0], past_dt)}
    elif DTYPE == 'duration':
        val.future_resolution = {'duration': '3600'}
        val.past_resolution = {'duration': '3600'}
    else:
        # a range [a, b) on both sides (or an invalid start on the future side)
        fs = mn if FUT == 'min' else a
        val.future_resolution = {keys[0]: _render(keys[0], fs), keys[1]: _render(keys[1], b)}
        val.past_resolution = {keys[0]: _render(keys[0], a), keys[1]: _render(keys[1], b)}
    er = ExtractResult()
    er.start, er.length, er.text, er.type = 0, 1, 'x', DTYPE
    slot = DateTimeParseResult(er)
    slot.value, slot.timex_str = val, 'TX'
    out = MP.set_parse_result(slot, MOD.startswith('before'), MOD.startswith('after'), MOD.startswith('since'))
    values = out.value['values']
    has_mod = MOD.startswith(('before', 'after', 'since'))
    want_type = DTYPE
    if has_mod and DTYPE in SINGLE:
        want_type = {'date': 'daterange', 'time': 'timerange', 'datetime': 'datetimerange'}[DTYPE]
    assert out.type == 'datetimeV2.' + want_type
    assert len(values) >= 1
    for v in values:
        assert v['type'] == want_type and v['timex'] == 'TX'                 # the type name equals the type of its values
        for k, s in v.items():
            if k in ('value', 'start', 'end') and s != 'not resolved':
                assert not s.startswith('0001-01-01')                          # a min-value component never escapes
    if DTYPE == 'duration':
        assert len(values) == 1 and values[0]['value'] == '3600'
        return
    if DTYPE in SINGLE:
        key = 'value'
        if MOD.startswith(('before', 'until')):
            key = 'end'
        elif MOD.startswith(('after', 'since')):
            key = 'start'
        live = []
        if PAST != 'min':
            live.append(a)
        if FUT != 'min':
            live.append(b)
        if not live:
            assert len(values) == 1 and values[0]['value'] == 'not resolved'
        elif SAME and len(live) == 2:
            assert len(values) == 1
            _check_shape(keys[0], values[0][key], a)
        elif SAME or len(live) == 2 or True:
            # past first, then future; a missing side is simply absent
            assert len(values) == len(live)
            for v, dt in zip(values, live):
                _check_shape(keys[0], v[key], dt)
    else:
        if MOD == '':
            if FUT == 'min':
                # the future side is invalid: only the past side is emitted
                assert len(values) == 1
            else:
                assert len(values) == 1          # same range on both sides collapses to one value
            v = values[0]
            _check_shape(keys[0], v['start'], a)
            _check_shape(keys[1], v['end'], b)


def t_resolution(y1: int, mo1: int, d1: int, h1: int, mi1: int, y2: int, mo2: int, d2: int, h2: int, mi2: int):
    assert 1900 <= y1 <= 2099 and 1 <= mo1 <= 12 and 1 <= d1 <= 28 and 0 <= h1 <= 23 and 0 <= mi1 <= 59
    assert 1900 <= y2 <= 2099 and 1 <= mo2 <= 12 and 1 <= d2 <= 28 and 0 <= h2 <= 23 and 0 <= mi2 <= 59
    digits.reset()
    a = datetime(y1, mo1, d1, h1, mi1, 7)
    val = DateTimeResolutionResult()
    val.success, val.mod, val.timex = True, '', 'TX'
    val.future_resolution = {'date': DateTimeFormatUtil.format_date(a)}
    val.past_resolution = {'date': DateTimeFormatUtil.format_date(a)}
    er = ExtractResult()
    er.start, er.length, er.text, er.type = 0, 1, 'x', 'date'
    slot = DateTimeParseResult(er)
    slot.value, slot.timex_str = val, 'TX'
    out = MP.set_parse_result(slot, False, False, False)
    assert out.value['values'][0]['value'] == 'not resolved'


# ---- validity guards ------------------------------------------------------------------------------------------------
def h_safe_create(y: int, mo: int, d: int, h: int, mi: int, s: int):
    assert 1 <= y <= 9999 and -1 <= mo <= 14 and -1 <= d <= 33 and -1 <= h <= 25 and -1 <= mi <= 61 and 0 <= s <= 59
    r = DateUtils.safe_create_from_min_value(y, mo, d, h, mi, s)
    if ENGINE == 'sx':
        from lib import symdate
        ok_date = (1 <= mo) & (mo <= 12) & (1 <= d)
        valid = bool(ok_date) and bool(d <= symdate.days_in_month(y, mo))
    else:
        valid = 1 <= mo <= 12 and 1 <= d <= dim(y, mo)
    valid = valid and bool((0 <= h) & (h <= 23) & (0 <= mi) & (mi <= 59))
    if valid:
        assert (r.year, r.month, r.day, r.hour, r.minute, r.second) == (y, mo, d, h, mi, s)
    else:
        assert r == DateUtils.min_value              # an impossible date/time yields the "unresolved" marker, never an exception or a wrong date
    assert DateUtils.is_valid_date(y, mo, d) == (bool((1 <= mo) & (mo <= 12) & (1 <= d)) and bool(d <= (symdate.days_in_month(y, mo) if ENGINE == 'sx' else dim(y, mo))))
