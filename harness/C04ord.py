"""C04 -- ordinals of the compound-word cultures (Italian, German, Dutch) through the public ordinal model: an independent speller writes
the n-th ordinal, recognize_ordinal must return one entity over it with value n.  Small-scope enumeration through the API (every n
of the range; not a solver verdict): the symbolic kernel obligations (O4.1) cover how token values combine, this covers how the
culture's one-word ordinals are tokenised and looked up.  Regions of recorded findings are skipped here and searched separately."""
from harness.common import *  # noqa
from harness import spell
from recognizers_number import recognize_ordinal

LANG = sl('lang', 'italian')
LO, HI = sl('lo', 1), sl('hi', 999)
REGION = sl('region', '')          # '' main claim | 'known': only the numbers of the recorded finding of the culture
CARD, CULTURE, _ = spell.SPELLERS[LANG]
env.assert_repo(recognize_ordinal)

IT = {1: 'primo', 2: 'secondo', 3: 'terzo', 4: 'quarto', 5: 'quinto', 6: 'sesto', 7: 'settimo', 8: 'ottavo', 9: 'nono', 10: 'decimo'}
DE = {1: 'erste', 3: 'dritte', 7: 'siebte', 8: 'achte'}
NL = {1: 'eerste', 3: 'derde', 8: 'achtste'}


def ordinal(n):
    """the one-word ordinal of n, or None where the regular formation rule below does not apply"""
    if LANG == 'italian':
        if n in IT:
            return IT[n]
        if n % 100 == 10 or n % 1000 == 0:
            return None          # centodecimo / millesimo: own forms
        c = CARD(n)
        if c.endswith('tré'):
            return c[:-1] + 'eesimo'
        if c.endswith('tre') or c.endswith('sei'):
            return c + 'esimo'
        return (c[:-1] if c[-1] in 'aeio' else c) + 'esimo'
    irr, small, big = (DE, 'te', 'ste') if LANG == 'german' else (NL, 'de', 'ste')
    r = n % 100
    if r in irr:
        return (CARD(n - r) if n > r else '') + irr[r]
    return CARD(n) + (small if 0 < r < 20 else big)


def known(n):
    if LANG == 'italian':          # F59
        return n > 100 and (n % 100 in (11, 13) or n % 100 == 0)
    if LANG == 'german':           # F60
        return 40 <= n % 100 <= 49
    return False


def ordinals_api(slice_, timeout):
    n_checked, bad = 0, []
    for n in range(LO, HI + 1):
        if known(n) != (REGION == 'known'):
            continue
        s = ordinal(n)
        if s is None:
            continue
        n_checked += 1
        rs = recognize_ordinal(s, CULTURE)
        if not (len(rs) == 1 and rs[0].text == s and rs[0].resolution.get('value') == str(n)):
            bad.append((n, s, [(r.text, r.resolution.get('value')) for r in rs]))
    if bad:
        return {'state': 'counterexample', 'cex': {'n': bad[0][0], 'text': bad[0][1]}, 'detail': '%d ordinals not recognised as their number, first: %r' % (len(bad), bad[:6]), 'queries': n_checked}
    return {'state': 'discharged', 'detail': '%d ordinals (%s %d..%d)' % (n_checked, LANG, LO, HI), 'queries': n_checked, 'sample': {'last': ordinal(HI) or ordinal(HI - 1)}}


def ordinals_api__replay(slice_, cex):
    r = ordinals_api(slice_, 0)
    return {'reproduced': r['state'] == 'counterexample', 'detail': r['detail']}
