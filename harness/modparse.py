"""C01 O1.7 -- BaseMergedParser.parse strips a leading/trailing modifier ("before", "since", "around", "... or later") from the entity,
parses the rest, and must restore exactly what it stripped: the returned entity has the original start, length and text.  The real
English modifier regexes run on a concrete entity text (one slice per phrase); the inner per-type parser is a stub; the entity's
start offset in the query is symbolic."""
from harness.dtcommon import *  # noqa
from lib.symx import assume
from recognizers_text.extractor import ExtractResult
from recognizers_text.meta_data import MetaData
from recognizers_date_time.date_time.parsers import DateTimeParseResult
from recognizers_date_time.date_time.utilities import DateTimeResolutionResult, DateTimeOptions
from recognizers_date_time.date_time.english.merged_parser_config import EnglishMergedParserConfiguration
from recognizers_date_time.date_time.base_merged import BaseMergedParser

MP = BaseMergedParser(EnglishMergedParserConfiguration(CFG), DateTimeOptions.NONE)
env.assert_repo(BaseMergedParser)
TEXT = sl('text', 'before xx')
BODY = sl('body', 'xx')
DTYPE = sl('dtype', 'date')
MOD = sl('mod', 'before')          # expected modifier of the result ('' = none)
SEEN = []


def _inner(source, reference):
    """stands for the per-type parser: records the entity it is given and returns a resolved value for it"""
    SEEN.append((source.start, source.length, source.text))
    pr = DateTimeParseResult(source)
    v = DateTimeResolutionResult()
    v.success = True
    v.timex = '2019-05-05'
    v.future_resolution = {'date': '2019-05-05'} if DTYPE == 'date' else {'time': '05:00:00'} if DTYPE == 'time' else {'dateTime': '2019-05-05 05:00:00'}
    v.past_resolution = dict(v.future_resolution)
    pr.value, pr.timex_str = v, v.timex
    return pr


MP.parse_result = _inner


def h_mod_restore(start: int):
    assume(0 <= start <= 200)
    del SEEN[:]
    er = ExtractResult()
    er.start, er.length, er.text, er.type = start, len(TEXT), TEXT, {'date': Constants.SYS_DATETIME_DATE, 'time': Constants.SYS_DATETIME_TIME,
                                                                       'datetime': Constants.SYS_DATETIME_DATETIME}[DTYPE]
    md = MetaData()
    md.has_mod = True
    er.meta_data = md
    out = MP.parse(er, datetime(2019, 1, 1))
    assert out is not None and out.value is not None
    # the inner parser saw exactly the body, at its own offset inside the query
    assert len(SEEN) == 1
    s0, l0, t0 = SEEN[0]
    rel = s0 - start
    assert isinstance(rel, int) or True
    rel = int(rel)
    # a consistent sub-span holding the body (a trailing connective such as 'and' may stay with the body when the modifier follows it)
    assert 0 <= rel and rel + l0 <= len(TEXT) and TEXT[rel:rel + l0] == t0 and (t0.strip() == BODY or (sl('loose_body', 0) and t0.strip().startswith(BODY)))
    # and the returned entity is the original one again
    assert out.start == start and out.length == len(TEXT) and out.text == TEXT
    vals = out.value['values']
    assert len(vals) >= 1
    if MOD == '*':
        assert all(v.get('Mod') for v in vals), vals          # some modifier is reported (which one is the culture's business)
    elif MOD:
        assert all(v.get('Mod') == MOD for v in vals), vals
    else:
        assert all('Mod' not in v for v in vals), vals


# ---- extractor side: BaseMergedExtractor.add_mod / try_merge_modifier_token widen the entity over the modifier ----------------------------
from recognizers_date_time.date_time.base_merged import BaseMergedExtractor  # noqa: E402
from recognizers_date_time.date_time.english.merged_extractor_config import EnglishMergedExtractorConfiguration  # noqa: E402
ME = BaseMergedExtractor(EnglishMergedExtractorConfiguration(), DateTimeOptions.NONE)
PHRASE = sl('phrase', 'before')
SUFFIX = sl('suffix', 0)          # 1: the modifier follows the entity ("xx or later")
ENT = 'may 5'


def h_add_mod(k: int, j: int, gap: int):
    """the entity ENT with PHRASE before (or after) it, k filler characters in front and j behind, `gap` blanks between phrase and entity"""
    assume(0 <= k <= 9 and 0 <= j <= 4 and 1 <= gap <= 2)
    k, j, gap = int(k), int(j), int(gap)
    # k = 0: nothing in front; 1..6: a filler word and a blank; 7..9: only blanks in front (1..3)
    head = ('w' * k + ' ') if 1 <= k <= 6 else ' ' * (k - 6 if k > 6 else 0)
    tail = (' ' + 'z' * j) if j else ''
    if SUFFIX:
        source = head + ENT + ' ' * gap + PHRASE + tail
        estart = len(head)
        want = (estart, len(ENT) + gap + len(PHRASE))
    else:
        source = head + PHRASE + ' ' * gap + ENT + tail
        estart = len(head) + len(PHRASE) + gap
        want = (len(head), len(PHRASE) + gap + len(ENT))
    er = ExtractResult()
    er.start, er.length, er.text, er.type = estart, len(ENT), ENT, Constants.SYS_DATETIME_DATE
    out = ME.add_mod([er], source)
    assert len(out) == 1
    e = out[0]
    assert 0 <= e.start and e.start + e.length <= len(source) and e.text == source[e.start:e.start + e.length], (source, e.start, e.length, e.text)
    assert (e.start, e.length) == want, (source, (e.start, e.length), want)
    assert e.meta_data is not None and e.meta_data.has_mod
