"""Proxy objects for the Decimal kernels of the number parsers (used with symx).

SymChar  -- one character of a numeral whose digit value is a symbolic int 0..9 (the code asks c.isdigit(), c == '0', Decimal(c))
SymText  -- a numeral: a sequence of real characters (separators, sign, blanks) and SymChars
SymDec   -- an exact decimal: value = num * 10**exp with num an int or SymInt and exp a concrete int.  The real code works at 15
            significant digits (@precision(prec=15)); every operation of the kernel is exact as long as the numeral has at most 15
            digits, which the harness guarantees by construction (stated bound).  Decimal(0.1) -- the binary double nearest to 0.1 --
            is modelled as exactly 1/10: under prec 15 every product the kernel forms with it rounds to the exact power of ten
            (validated on concrete values by `selftest`).
"""
from lib.symx import SymInt, SymBool


class SymChar:
    def __init__(self, d):
        self.d = d

    def isdigit(self):
        return True

    def isspace(self):
        return False

    def __eq__(self, other):
        if isinstance(other, SymChar):
            return self.d == other.d
        if isinstance(other, str) and len(other) == 1 and other in '0123456789':
            return self.d == int(other)
        return False

    def __ne__(self, other):
        r = self.__eq__(other)
        return (~r) if isinstance(r, SymBool) else (not r)

    def __hash__(self):
        return 7

    def lower(self):
        return self

    def __repr__(self):
        return 'SymChar(%r)' % (self.d,)


class SymText:
    def __init__(self, items):
        self.items = list(items)

    def __len__(self):
        return len(self.items)

    def __iter__(self):
        return iter(self.items)

    def __getitem__(self, i):
        if isinstance(i, slice):
            return SymText(self.items[i])
        return self.items[i]

    def __contains__(self, ch):
        return any(isinstance(x, str) and x == ch for x in self.items)

    def lower(self):
        return self

    def strip(self):
        return self


class SymDec:
    def __init__(self, v=0, exp=0):
        if isinstance(v, SymDec):
            self.num, self.exp = v.num, v.exp
        elif isinstance(v, SymChar):
            self.num, self.exp = v.d, 0
        elif isinstance(v, float):
            if v == 0.1:
                self.num, self.exp = 1, -1
            elif v == int(v):
                self.num, self.exp = int(v), 0
            else:
                raise NotImplementedError('SymDec(float %r)' % v)
        elif isinstance(v, str):
            if len(v) == 1 and v in '0123456789':
                self.num, self.exp = int(v), 0
            else:
                raise NotImplementedError('SymDec(str %r)' % v)
        else:
            self.num, self.exp = v, exp

    def _align(self, o):
        o = o if isinstance(o, SymDec) else SymDec(o)
        e = min(self.exp, o.exp)
        return self.num * 10 ** (self.exp - e), o.num * 10 ** (o.exp - e), e

    def __add__(self, o):
        a, b, e = self._align(o)
        return SymDec(a + b, e)

    __radd__ = __add__

    def __sub__(self, o):
        a, b, e = self._align(o)
        return SymDec(a - b, e)

    def __mul__(self, o):
        o = o if isinstance(o, SymDec) else SymDec(o)
        return SymDec(self.num * o.num, self.exp + o.exp)

    __rmul__ = __mul__

    def __neg__(self):
        return SymDec(-self.num, self.exp)

    def __eq__(self, o):
        a, b, e = self._align(o)
        return a == b

    def __hash__(self):
        return 11

    def scaled(self, exp):
        """numerator at the given (smaller or equal) exponent"""
        assert exp <= self.exp
        return self.num * 10 ** (self.exp - exp)

    def __repr__(self):
        return 'SymDec(%r e%d)' % (self.num, self.exp)


class Ctx:
    """stands in for decimal.getcontext() inside the kernel"""
    prec = 15

    @staticmethod
    def add(a, b):
        return SymDec(a) + SymDec(b)

    @staticmethod
    def multiply(a, b):
        return SymDec(a) * SymDec(b)

    @staticmethod
    def subtract(a, b):
        return SymDec(a) - SymDec(b)

    @staticmethod
    def divide(a, b):
        raise NotImplementedError('SymDec division (fractions are outside the modelled shapes)')


def getcontext():
    return Ctx
