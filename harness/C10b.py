"""C10 -- date-time ranges: BaseDateTimePeriodParser.merge_two_time_points on two absolute date-times (both ends carry a date),
on "<date-time> to <time>" and on "<time> to <date-time>" (the bare time takes the other end's date)."""
from harness.C10 import *  # noqa
from harness.C10 import _after_last_comma

DTPP = CFG.date_time_period_parser
MODE = sl('mode', 'both')        # 'both' | 'begin' (only the begin carries a date) | 'end'


class _Ext:
    def __init__(self, spans, typ):
        self.spans, self.typ = spans, typ

    def extract(self, source, reference=None):
        out = []
        for (s, l, t) in self.spans:
            e = ExtractResult()
            e.start, e.length, e.text, e.type = s, l, t, self.typ
            out.append(e)
        return out


class _Par:
    vals = None

    def parse(self, er, reference=None):
        dt, tx, amb = self.vals[er.text]
        val = DateTimeResolutionResult()
        val.future_value = val.past_value = dt
        val.comment = 'ampm' if amb else ''
        val.success = True
        pr = DateTimeParseResult(er)
        pr.value = val
        pr.timex_str = tx
        return pr


def _dtx(d):
    return digits.ph(d.year, 4) + '-' + digits.ph(d.month, 2) + '-' + digits.ph(d.day, 2) + 'T' + digits.ph(d.hour, 2) + ':' + digits.ph(d.minute, 2)


def _ttx(h, m, sec):
    return 'T' + digits.ph(h, 2) + ':' + digits.ph(m, 2) + ':' + digits.ph(sec, 2)


def h_datetime_points(o1: int, h1: int, m1: int, gapmin: int, h2: int, m2: int, s2: int):
    """mode 'both': begin = any minute of any day 1900..2088, end = begin + 1..20000 minutes: the resolved start/end are exactly the
    endpoints and the TIMEX is (begin, end, PT..) with a duration equal to end - begin.
    modes 'begin'/'end': the bare clock time is placed on the other end's date; when that gives start < end, the duration equals end - start"""
    assert 693596 <= o1 <= 762000 and 0 <= h1 <= 23 and 0 <= m1 <= 59 and 1 <= gapmin <= 20000 and 0 <= h2 <= 23 and 0 <= m2 <= 59 and 0 <= s2 <= 59
    digits.reset()
    day = datetime.fromordinal(o1)
    a = datetime(day.year, day.month, day.day, h1, m1, 0)
    par = _Par()
    if MODE == 'both':
        assume(s2 == 0)
        b = a + timedelta(minutes=gapmin)
        DTPP.config._date_time_extractor = _Ext([(5, 2, 'D1'), (11, 2, 'D2')], Constants.SYS_DATETIME_DATETIME)
        DTPP.config._time_extractor = _Ext([], Constants.SYS_DATETIME_TIME)
        par.vals = {'D1': (a, _dtx(a), 0), 'D2': (b, _dtx(b), 0)}
        DTPP.config._date_time_parser = par
        want_b, want_e = a, b
    else:
        t = datetime(day.year, day.month, day.day, h2, m2, s2)      # the bare clock time (with seconds) placed on the other end's date
        tref = datetime(2000, 6, 15, h2, m2, s2)                    # what the time parser returns for a bare time: on the reference day
        if MODE == 'begin':
            DTPP.config._date_time_extractor = _Ext([(5, 2, 'D1')], Constants.SYS_DATETIME_DATETIME)
            DTPP.config._time_extractor = _Ext([(11, 2, 'T2')], Constants.SYS_DATETIME_TIME)
            par.vals = {'D1': (a, _dtx(a), 0), 'T2': (tref, _ttx(h2, m2, s2), 0)}
            want_b, want_e = a, t
        else:
            DTPP.config._date_time_extractor = _Ext([(11, 2, 'D1')], Constants.SYS_DATETIME_DATETIME)
            DTPP.config._time_extractor = _Ext([(5, 2, 'T2')], Constants.SYS_DATETIME_TIME)
            par.vals = {'D1': (a, _dtx(a), 0), 'T2': (tref, _ttx(h2, m2, s2), 0)}
            want_b, want_e = t, a
        assume(want_b < want_e)                                     # an ordered pair (the statement's quantifier)
        DTPP.config._date_time_parser = par
        DTPP.config._time_parser = par
    r = DTPP.merge_two_time_points('from D1 to D2', datetime(2000, 6, 15, 9, 30, 0))
    assert r.success is True
    fb, fe = r.future_value
    pb, pe = r.past_value
    assert fb == want_b and fe == want_e and pb == want_b and pe == want_e
    dur = (fe - fb).total_seconds()
    tail = _after_last_comma(digits._join(digits._norm(digits.decode(r.timex))))
    assert tail[:2] == ['P', 'T'] and tail[-1] == ')'
    body = tail[2:-1]
    tot = 0
    i = 0
    assert len(body) >= 2
    while i < len(body):
        assert not isinstance(body[i], str) and body[i + 1] in ('H', 'M', 'S')
        tot = tot + body[i][0] * {'H': 3600, 'M': 60, 'S': 1}[body[i + 1]]
        i += 2
    assert tot == dur


def t_datetime_points(o1: int, h1: int, m1: int, gapmin: int, h2: int, m2: int):
    assert 693596 <= o1 <= 762000 and 0 <= h1 <= 23 and 0 <= m1 <= 59 and 1 <= gapmin <= 20000 and 0 <= h2 <= 23 and 0 <= m2 <= 59
    digits.reset()
    day = datetime.fromordinal(o1)
    a = datetime(day.year, day.month, day.day, h1, m1, 0)
    b = a + timedelta(minutes=gapmin)
    par = _Par()
    DTPP.config._date_time_extractor = _Ext([(5, 2, 'D1'), (11, 2, 'D2')], Constants.SYS_DATETIME_DATETIME)
    DTPP.config._time_extractor = _Ext([], Constants.SYS_DATETIME_TIME)
    par.vals = {'D1': (a, _dtx(a), 0), 'D2': (b, _dtx(b), 0)}
    DTPP.config._date_time_parser = par
    r = DTPP.merge_two_time_points('from D1 to D2', datetime(2000, 6, 15, 9, 30, 0))
    assert r.success is False


# ---- "next / past N hours": BaseDateTimePeriodParser.parse_duration ------------------------------------------------------------------------------
WORD = sl('word', 'next')          # next | past | last | previous (the real English prefix patterns decide which side moves)
UNITS = sl('unit', 'H')            # H | M | S
NMAX = sl('nmax', 12)


class _DurPar:
    secs, tx = 0, ''

    def parse(self, er, reference=None):
        val = DateTimeResolutionResult()
        val.future_value = val.past_value = self.secs
        val.timex = self.tx
        val.success = True
        pr = DateTimeParseResult(er)
        pr.value = val
        pr.timex_str = self.tx
        return pr


class _NoNumbers:
    def extract(self, source, reference=None):
        return []


def h_relative_duration(o: int, hh: int, mi: int, ss: int, n: int):
    """'<word> N <unit>' around a symbolic reference instant (any second of 1950..2090), N symbolic: the range is [reference, reference + N units]
    (next) or [reference - N units, reference] (past / last / previous); the TIMEX endpoints are exactly the resolved start and end"""
    assert 711858 <= o <= 763363 and 0 <= hh <= 23 and 0 <= mi <= 59 and 0 <= ss <= 59 and 1 <= n <= NMAX
    digits.reset()
    digits.SEMANTIC_MERGE[0] = False          # parse_duration never compares rendered numbers
    unit_s = {'H': 3600, 'M': 60, 'S': 1}[UNITS]
    day = datetime.fromordinal(o)
    ref = datetime(day.year, day.month, day.day, hh, mi, ss)
    text = WORD + ' DUR'
    DTPP.config._duration_extractor = _Ext([(len(WORD) + 1, 3, 'DUR')], Constants.SYS_DATETIME_DURATION)
    dp = _DurPar()
    dp.secs, dp.tx = n * unit_s, 'PT' + digits.ph(n, 2) + UNITS
    DTPP.config._duration_parser = dp
    DTPP.config._cardinal_extractor = _NoNumbers()
    r = DTPP.parse_duration(text, ref)
    assert r.success is True
    b, e = r.future_value
    assert r.past_value[0] == b and r.past_value[1] == e
    delta = timedelta(seconds=n * unit_s)
    if WORD == 'next':
        assert b == ref and e == ref + delta, ('range of "next"', r.timex)
    else:
        assert e == ref and b == ref - delta, ('range of "past"', r.timex)
    want = ['(', (b.year, 4), '-', (b.month, 2), '-', (b.day, 2), 'T', (b.hour, 2), ':', (b.minute, 2), ':', (b.second, 2), ',',
            (e.year, 4), '-', (e.month, 2), '-', (e.day, 2), 'T', (e.hour, 2), ':', (e.minute, 2), ':', (e.second, 2), ',PT', (n, 2), UNITS + ')']
    assert digits.same(digits.decode(r.timex), want), ('TIMEX endpoints differ from the resolved start / end', r.timex)


def t_relative_duration(o: int, hh: int, mi: int, ss: int, n: int):
    assert 711858 <= o <= 763363 and 0 <= hh <= 23 and 0 <= mi <= 59 and 0 <= ss <= 59 and 1 <= n <= 2
    digits.reset()
    day = datetime.fromordinal(o)
    ref = datetime(day.year, day.month, day.day, hh, mi, ss)
    DTPP.config._duration_extractor = _Ext([(len(WORD) + 1, 3, 'DUR')], Constants.SYS_DATETIME_DURATION)
    dp = _DurPar()
    dp.secs, dp.tx = n * 3600, 'PT' + digits.ph(n, 2) + 'H'
    DTPP.config._duration_parser = dp
    DTPP.config._cardinal_extractor = _NoNumbers()
    r = DTPP.parse_duration(WORD + ' DUR', ref)
    assert r.success is not True
