"""C10 -- date-time ranges: BaseDateTimePeriodParser.merge_two_time_points on two absolute date-times (both ends carry a date),
on "<date-time> to <time>" and on "<time> to <date-time>" (the bare time takes the other end's date)."""
from harness.C10 import *  # noqa
from harness.C10 import _after_last_comma

DTPP = CFG.date_time_period_parser
MODE = sl('mode', 'both')        # 'both' | 'begin' (only the begin carries a date) | 'end'


class _Ext:
    def __init__(self, spans, typ):
        self.spans, self.typ = spans, typ

    def extract(self, source, reference=None):
        out = []
        for (s, l, t) in self.spans:
            e = ExtractResult()
            e.start, e.length, e.text, e.type = s, l, t, self.typ
            out.append(e)
        return out


class _Par:
    vals = None

    def parse(self, er, reference=None):
        dt, tx, amb = self.vals[er.text]
        val = DateTimeResolutionResult()
        val.future_value = val.past_value = dt
        val.comment = 'ampm' if amb else ''
        val.success = True
        pr = DateTimeParseResult(er)
        pr.value = val
        pr.timex_str = tx
        return pr


def _dtx(d):
    return digits.ph(d.year, 4) + '-' + digits.ph(d.month, 2) + '-' + digits.ph(d.day, 2) + 'T' + digits.ph(d.hour, 2) + ':' + digits.ph(d.minute, 2)


def _ttx(h, m, sec):
    return 'T' + digits.ph(h, 2) + ':' + digits.ph(m, 2) + ':' + digits.ph(sec, 2)


def h_datetime_points(o1: int, h1: int, m1: int, gapmin: int, h2: int, m2: int, s2: int):
    """mode 'both': begin = any minute of any day 1900..2088, end = begin + 1..20000 minutes: the resolved start/end are exactly the
    endpoints and the TIMEX is (begin, end, PT..) with a duration equal to end - begin.
    modes 'begin'/'end': the bare clock time is placed on the other end's date; when that gives start < end, the duration equals end - start"""
    assert 693596 <= o1 <= 762000 and 0 <= h1 <= 23 and 0 <= m1 <= 59 and 1 <= gapmin <= 20000 and 0 <= h2 <= 23 and 0 <= m2 <= 59 and 0 <= s2 <= 59
    digits.reset()
    day = datetime.fromordinal(o1)
    a = datetime(day.year, day.month, day.day, h1, m1, 0)
    par = _Par()
    if MODE == 'both':
        assume(s2 == 0)
        b = a + timedelta(minutes=gapmin)
        DTPP.config._date_time_extractor = _Ext([(5, 2, 'D1'), (11, 2, 'D2')], Constants.SYS_DATETIME_DATETIME)
        DTPP.config._time_extractor = _Ext([], Constants.SYS_DATETIME_TIME)
        par.vals = {'D1': (a, _dtx(a), 0), 'D2': (b, _dtx(b), 0)}
        DTPP.config._date_time_parser = par
        want_b, want_e = a, b
    else:
        t = datetime(day.year, day.month, day.day, h2, m2, s2)      # the bare clock time (with seconds) placed on the other end's date
        tref = datetime(2000, 6, 15, h2, m2, s2)                    # what the time parser returns for a bare time: on the reference day
        if MODE == 'begin':
            DTPP.config._date_time_extractor = _Ext([(5, 2, 'D1')], Constants.SYS_DATETIME_DATETIME)
            DTPP.config._time_extractor = _Ext([(11, 2, 'T2')], Constants.SYS_DATETIME_TIME)
            par.vals = {'D1': (a, _dtx(a), 0), 'T2': (tref, _ttx(h2, m2, s2), 0)}
            want_b, want_e = a, t
        else:
            DTPP.config._date_time_extractor = _Ext([(11, 2, 'D1')], Constants.SYS_DATETIME_DATETIME)
            DTPP.config._time_extractor = _Ext([(5, 2, 'T2')], Constants.SYS_DATETIME_TIME)
            par.vals = {'D1': (a, _dtx(a), 0), 'T2': (tref, _ttx(h2, m2, s2), 0)}
            want_b, want_e = t, a
        assume(want_b < want_e)                                     # an ordered pair (the statement's quantifier)
        DTPP.config._date_time_parser = par
        DTPP.config._time_parser = par
    r = DTPP.merge_two_time_points('from D1 to D2', datetime(2000, 6, 15, 9, 30, 0))
    assert r.success is True
    fb, fe = r.future_value
    pb, pe = r.past_value
    assert fb == want_b and fe == want_e and pb == want_b and pe == want_e
    dur = (fe - fb).total_seconds()
    tail = _after_last_comma(digits._join(digits._norm(digits.decode(r.timex))))
    assert tail[:2] == ['P', 'T'] and tail[-1] == ')'
    body = tail[2:-1]
    tot = 0
    i = 0
    assert len(body) >= 2
    while i < len(body):
        assert not isinstance(body[i], str) and body[i + 1] in ('H', 'M', 'S')
        tot = tot + body[i][0] * {'H': 3600, 'M': 60, 'S': 1}[body[i + 1]]
        i += 2
    assert tot == dur


def t_datetime_points(o1: int, h1: int, m1: int, gapmin: int, h2: int, m2: int):
    assert 693596 <= o1 <= 762000 and 0 <= h1 <= 23 and 0 <= m1 <= 59 and 1 <= gapmin <= 20000 and 0 <= h2 <= 23 and 0 <= m2 <= 59
    digits.reset()
    day = datetime.fromordinal(o1)
    a = datetime(day.year, day.month, day.day, h1, m1, 0)
    b = a + timedelta(minutes=gapmin)
    par = _Par()
    DTPP.config._date_time_extractor = _Ext([(5, 2, 'D1'), (11, 2, 'D2')], Constants.SYS_DATETIME_DATETIME)
    DTPP.config._time_extractor = _Ext([], Constants.SYS_DATETIME_TIME)
    par.vals = {'D1': (a, _dtx(a), 0), 'D2': (b, _dtx(b), 0)}
    DTPP.config._date_time_parser = par
    r = DTPP.merge_two_time_points('from D1 to D2', datetime(2000, 6, 15, 9, 30, 0))
    assert r.success is False
