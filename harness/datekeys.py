"""C06 / C09: the month and day *keys* of each culture's wired parser configuration, through the real BaseDateParser.

The symbolic obligations (O6.2, O9.1) replace the month/day word tables by one-entry tables; here every key of the maps that the
culture's parser configuration actually wires (month names, abbreviations, numeric and zero-padded forms) is pushed through the real
match_to_date with one date pattern made to match.  Finite and exhaustive over the keys: an audit through the real code, labelled so."""
import importlib

from harness.dtcommon import *  # noqa
from recognizers_text.extractor import ExtractResult

LANG = sl('lang', 'english')
_cm = importlib.import_module('recognizers_date_time.date_time.%s.common_configs' % LANG)
_cfg_cls = [getattr(_cm, n) for n in dir(_cm) if n.endswith('CommonDateTimeParserConfiguration') and n.lower().startswith(LANG[:4])][0]
env.assert_repo(_cm)
LCFG = _cfg_cls()
LDP = LCFG.date_parser


class _OneRegex:
    """stands in for the `regex` module inside base_date: only the target pattern matches, with the given groups"""
    def __init__(self):
        self.target, self.groups = None, {}

    def _hit(self, pattern, s):
        if pattern is self.target:
            return FakeMatch(self.groups, text='x', start=len(s) - 1)
        return None

    def search(self, pattern, s, *a, **k):
        return self._hit(pattern, s)

    def match(self, pattern, s, *a, **k):
        return self._hit(pattern, s)

    def finditer(self, pattern, s, *a, **k):
        m = self._hit(pattern, s)
        return iter([m] if m else [])

    def findall(self, pattern, s, *a, **k):
        return []


def audit_keys(slice_, timeout):
    """every (month key, day key) of the wired maps: a date with year 2019 decodes to (2019, month, day); without a year the
    two candidates carry that month and day; the numeric keys 1..12 / 1..31 and their zero-padded forms must all be present"""
    fr = _OneRegex()
    saved = BASE_DATE.regex
    BASE_DATE.regex = fr
    n = 0
    try:
        mo, dm = dict(LDP.config.month_of_year), dict(LDP.config.day_of_month)
        missing = [k for k in [str(i) for i in range(1, 13)] + ['%02d' % i for i in range(1, 10)] if k not in mo]
        missing_d = [k for k in [str(i) for i in range(1, 32)] + ['%02d' % i for i in range(1, 10)] if k not in dm]
        if missing or missing_d:
            return {'state': 'counterexample', 'cex': {'lang': LANG, 'missing_month_keys': missing[:5], 'missing_day_keys': missing_d[:5]},
                    'detail': 'numeric keys missing from the wired maps: months %r, days %r' % (missing[:5], missing_d[:5]), 'queries': 0}
        # wiring completeness: every spelling the culture's resource tables list (ordinal days such as '1er', month abbreviations ...) is wired
        _res = importlib.import_module('recognizers_date_time.resources.%s_date_time' % LANG)
        _R = getattr(_res, LANG.capitalize() + 'DateTime')
        unwired_d = [k for k in getattr(_R, 'DayOfMonth', {}) if k not in dm]
        unwired_m = [k for k in getattr(_R, 'MonthOfYear', {}) if k not in mo]
        if unwired_d or unwired_m:
            return {'state': 'counterexample', 'cex': {'lang': LANG, 'unwired_day_keys': unwired_d[:5], 'unwired_month_keys': unwired_m[:5]},
                    'detail': 'spellings of the culture\'s resource tables missing from the wired parser maps: days %r, months %r' % (unwired_d[:6], unwired_m[:6]), 'queries': 0}
        ref = datetime(2019, 7, 15)
        fr.target = LDP.config.date_regex[0]
        day_keys = sorted(dm, key=lambda k: (dm[k], k))
        for mk, m in sorted(mo.items()):
            for dk in day_keys:
                d = dm[dk]
                if not (1 <= m <= 12 and 1 <= d <= 28):
                    continue                              # calendar validity of days 29..31 is the subject of O6.2
                n += 1
                fr.groups = {'year': '2019', 'month': mk, 'day': dk}
                er = ExtractResult()
                er.start, er.length, er.text, er.type = 0, 1, 'x', Constants.SYS_DATETIME_DATE
                pr = LDP.parse(er, ref)
                v = pr.value
                got = (v.future_value.year, v.future_value.month, v.future_value.day) if v and v.success else None
                if got != (2019, m, d):
                    return {'state': 'counterexample', 'cex': {'lang': LANG, 'month_key': mk, 'day_key': dk, 'year': True},
                            'detail': 'month key %r day key %r with year 2019 -> %r, expected (2019, %d, %d)' % (mk, dk, got, m, d), 'queries': n}
                fr.groups = {'month': mk, 'day': dk}
                pr = LDP.parse(er, ref)
                v = pr.value
                got = [(x.month, x.day) for x in (v.future_value, v.past_value)] if v and v.success else None
                if got != [(m, d), (m, d)]:
                    return {'state': 'counterexample', 'cex': {'lang': LANG, 'month_key': mk, 'day_key': dk, 'year': False},
                            'detail': 'month key %r day key %r without year -> %r, expected month %d day %d twice' % (mk, dk, got, m, d), 'queries': n}
    finally:
        BASE_DATE.regex = saved
    return {'state': 'discharged', 'detail': '%d (month key, day key) pairs x {with year, without year} (%s)' % (n, LANG), 'queries': 2 * n, 'sample': {'pairs': n}}


def audit_keys__replay(slice_, cex):
    r = audit_keys(slice_, 0)
    return {'reproduced': r['state'] == 'counterexample', 'detail': r['detail']}
