"""C14 -- TIMEX parse/format round trip on symbolic-digit strings (see harness/digits.py).

The real TimexParsing / TimexRegex (stdlib re) / Timex.assign_properties / TimexInference /
TimexFormat code runs natively on strings whose number fields are placeholders for symbolic ints;
CrossHair+z3 decide the branches the code takes on those ints.
"""
import sys
from datetime import datetime

from harness.common import *  # noqa
from harness import digits
import datatypes_timex_expression as dte
from datatypes_timex_expression import Timex
from datatypes_timex_expression.timex_regex import TimexRegex
from datatypes_timex_expression.timex_format import TimexFormat
from datatypes_timex_expression.timex_date_helpers import TimexDateHelpers
from datatypes_timex_expression.time import Time

env.assert_repo(Timex, TimexRegex, TimexFormat, TimexDateHelpers)
TIMEX_MOD = sys.modules['datatypes_timex_expression.timex']

REAL_FIXED = TimexDateHelpers.fixed_format_number
TimexDateHelpers.fixed_format_number = staticmethod(digits.fixed)
TIMEX_MOD.int = digits.unint
# nothing in the parse/format pipeline compares two rendered numbers with each other, so placeholders are merged by identity only
digits.SEMANTIC_MERGE[0] = False


class Amt:
    """stub for decimal.Decimal(amount-string) inside the Timex module: an exact decimal whose digits are
    placeholders.  Truthiness = the amount is non-zero (symbolic); formatting returns the amount text
    (Decimal's str() keeps the digits of a canonical numeral: no superfluous leading zero)."""
    def __init__(self, text):
        self.text = text

    def __bool__(self):
        for it in digits.decode(self.text):
            if not isinstance(it, str):
                if it[0] != 0:
                    return True
        return False

    def __format__(self, spec):
        return self.text

    def __str__(self):
        return self.text

    def __eq__(self, other):
        return isinstance(other, Amt) and digits.same(digits.decode(self.text), digits.decode(other.text))

    def __hash__(self):
        return 0


TIMEX_MOD.Decimal = Amt

RANGE = {'year': (1, 9999), 'month': (1, 12), 'day_of_month': (1, 31), 'day_of_week': (1, 7), 'week_of_year': (1, 53),
         'week_of_month': (1, 5), 'hour': (0, 23), 'minute': (0, 59), 'second': (0, 59)}
FIELDS = ['now', 'years', 'months', 'weeks', 'days', 'hours', 'minutes', 'seconds', 'year', 'month', 'day_of_month',
          'day_of_week', 'season', 'week_of_year', 'weekend', 'week_of_month', 'part_of_day', 'hour', 'minute', 'second']

# the slice: which patterns the input is made of (indices into the real TimexRegex lists) and the enum choices
KIND = sl('kind', 'date')          # 'date' | 'time' | 'datetime' | 'period'
DI, TI, PI = sl('di', 0), sl('ti', 0), sl('pi', 0)
ENUMS = sl('enums', [])            # chosen alternative index per enum group, in order
AMT = sl('amt', [1, 0])            # duration amount shape: [int digits, fraction digits]


def _templates():
    parts = []
    if KIND in ('date', 'datetime'):
        parts.append(TimexRegex.timexRegex['date'][DI].pattern)
    if KIND in ('time', 'datetime'):
        parts.append(TimexRegex.timexRegex['time'][TI].pattern)
    if KIND == 'period':
        parts.append(TimexRegex.timexRegex['period'][PI].pattern)
    tpl = []
    for p in parts:
        if not digits.digit_independent(p):
            raise env.HarnessError('TIMEX pattern %r tests particular digits: symbolic-digit strings do not apply' % p)
        t = digits.template(p)
        if t is None:
            raise env.HarnessError('TIMEX pattern %r is outside the template fragment' % p)
        tpl += t
    return tpl


TPL = _templates()
NUMS = [t for t in TPL if isinstance(t, tuple) and t[0] == 'num']
LO = [RANGE[t[1]][0] for t in NUMS] + [0] * 6
HI = [min(RANGE[t[1]][1], 10 ** t[2] - 1) for t in NUMS] + [0] * 6
if any(isinstance(t, tuple) and t[0] == 'amount' for t in TPL):
    LO[0], HI[0] = 0, 10 ** AMT[0] - 1
    LO[1], HI[1] = 0, 10 ** AMT[1] - 1 if AMT[1] else 0


def build(vals):
    """the input TIMEX string (placeholders for the symbolic numbers) and the expected field values"""
    s = ''
    exp = {}
    vi = 0
    ei = 0
    for t in TPL:
        if isinstance(t, str):
            s += t
        elif t[0] == 'num':
            s += digits.ph(vals[vi], t[2])
            exp[t[1]] = vals[vi]
            vi += 1
        elif t[0] == 'enum':
            alt = t[2][ENUMS[ei] if ei < len(ENUMS) else 0]
            ei += 1
            s += alt
            exp[t[1]] = alt
        elif t[0] == 'amount':
            a = ''
            if AMT[0]:
                a += digits.ph(vals[0], AMT[0])
            if AMT[1]:
                a += '.' + digits.ph(vals[1], AMT[1])
            s += a
            exp['amount'] = a
    return s, exp


def snapshot(t):
    return [getattr(t, f) for f in FIELDS]


def eqv(a, b):
    if isinstance(a, Amt) or isinstance(b, Amt):
        return a == b
    if a is None or b is None or isinstance(a, (str, bool)) or isinstance(b, (str, bool)):
        return type(a) == type(b) and a == b
    return a == b


def canonical_amount(v0, v1):
    """the numeral is what Decimal's str() prints: no superfluous leading zero in the integer part, an integer part present"""
    if not AMT[0]:
        return False
    return AMT[0] == 1 or v0 >= 10 ** (AMT[0] - 1)


def h_roundtrip(v0: int, v1: int, v2: int, v3: int, v4: int, v5: int):
    assert LO[0] <= v0 <= HI[0] and LO[1] <= v1 <= HI[1] and LO[2] <= v2 <= HI[2]
    assert LO[3] <= v3 <= HI[3] and LO[4] <= v4 <= HI[4] and LO[5] <= v5 <= HI[5]
    digits.reset()
    vals = [v0, v1, v2, v3, v4, v5]
    s, exp = build(vals)
    t1 = Timex(s)
    # (a) parsing assigns every group to its field and nothing else
    for f in FIELDS:
        got = getattr(t1, f)
        if f in exp and f != 'weekend':
            assert eqv(got, exp[f]), (f, s)
        elif f == 'weekend':
            assert got is ('weekend' in exp), (f, s)
        elif f == 'now':
            assert got is False
        elif f in ('years', 'months', 'weeks', 'days', 'hours', 'minutes', 'seconds') and 'amount' in exp:
            unit = exp.get('date_unit') or ('T' + exp.get('time_unit'))
            mine = {'years': 'Y', 'months': 'M', 'weeks': 'W', 'days': 'D', 'hours': 'TH', 'minutes': 'TM', 'seconds': 'TS'}[f]
            if unit == mine:
                assert isinstance(got, Amt) and got.text == exp['amount']
            else:
                assert got is None
        elif f in ('minute', 'second') and 'hour' in exp:
            assert got == 0          # hour given without minute/second: the datatype's Time object defaults them to 0
        else:
            assert got is None, (f, s)
    f1 = t1.timex_value()
    t2 = Timex(f1)
    f2 = t2.timex_value()
    # (b) formatting then parsing yields the same field values
    a, b = snapshot(t1), snapshot(t2)
    for i in range(len(FIELDS)):
        assert eqv(a[i], b[i]), (FIELDS[i], s, f1)
    # (c) formatting is idempotent
    assert digits.same(digits.decode(f1), digits.decode(f2)), (f1, f2)
    # (d) a canonical string comes back identical; the only non-canonical spellings in the grammar are a time
    #     with explicit zero seconds / zero minutes-and-seconds and a duration numeral with a superfluous zero
    noncanon = False
    if 'second' in exp and exp['second'] == 0:
        noncanon = True
    if 'minute' in exp and 'second' not in exp and exp['minute'] == 0:
        noncanon = True
    if 'amount' in exp and not canonical_amount(v0, v1):
        noncanon = True
    if not noncanon:
        assert digits.same(digits.decode(f1), digits.decode(s)), (s, f1)


def t_roundtrip(v0: int, v1: int, v2: int, v3: int, v4: int, v5: int):
    assert LO[0] <= v0 <= HI[0] and LO[1] <= v1 <= HI[1] and LO[2] <= v2 <= HI[2]
    assert LO[3] <= v3 <= HI[3] and LO[4] <= v4 <= HI[4] and LO[5] <= v5 <= HI[5]
    digits.reset()
    s, exp = build([v0, v1, v2, v3, v4, v5])
    t1 = Timex(s)
    f1 = t1.timex_value()
    assert f1 == ''


def h_range_time(v0: int, v1: int, v2: int, v3: int, v4: int, v5: int):
    """region of known finding F19 (a date-RANGE pattern followed by a T part): what does hold there.
    Parsing assigns every group; formatting keeps the date-range part intact and is idempotent; only the T part is lost
    (for the week-of-month-weekday pattern + part of day: month and week of month are lost instead)."""
    assert LO[0] <= v0 <= HI[0] and LO[1] <= v1 <= HI[1] and LO[2] <= v2 <= HI[2]
    assert LO[3] <= v3 <= HI[3] and LO[4] <= v4 <= HI[4] and LO[5] <= v5 <= HI[5]
    assert KIND == 'datetime'
    digits.reset()
    vals = [v0, v1, v2, v3, v4, v5]
    s, exp = build(vals)
    t1 = Timex(s)
    for f in FIELDS:
        got = getattr(t1, f)
        if f in exp and f != 'weekend':
            assert eqv(got, exp[f]), (f, s)
        elif f == 'weekend':
            assert got is ('weekend' in exp), (f, s)
        elif f == 'now':
            assert got is False
        elif f in ('minute', 'second') and 'hour' in exp:
            assert got == 0
        else:
            assert got is None, (f, s)
    f1 = t1.timex_value()
    date_part, _, time_part = s.partition('T')
    if 'part_of_day' in exp and 'day_of_week' in exp:
        want = 'XXXX-WXX-' + date_part[-1] + 'T' + time_part
    else:
        want = date_part
    assert digits.same(digits.decode(f1), digits.decode(want)), (s, f1)
    t2 = Timex(f1)
    assert digits.same(digits.decode(t2.timex_value()), digits.decode(f1))
    a, b = snapshot(t1), snapshot(t2)
    lost = ('month', 'week_of_month') if ('part_of_day' in exp and 'day_of_week' in exp) else ('hour', 'minute', 'second', 'part_of_day')
    for i in range(len(FIELDS)):
        if FIELDS[i] not in lost:
            assert eqv(a[i], b[i]), (FIELDS[i], s, f1)


def h_zero_amount(v0: int, v1: int):
    """known-finding region F7b: a zero duration amount formats to '' (which does not parse back)"""
    assert v0 == 0 and v1 == 0
    digits.reset()
    s, exp = build([v0, v1, 0, 0, 0, 0])
    f1 = Timex(s).timex_value()
    assert f1 != ''


def h_present(dummy: int):
    assert dummy == 0
    t1 = Timex('PRESENT_REF')
    assert t1.now is True
    f1 = t1.timex_value()
    assert f1 == 'PRESENT_REF' and Timex(f1).timex_value() == f1


# ---- from_date / from_date_time / from_time -----------------------------------------------------
def h_from_date_time(y: int, mo: int, d: int, h: int, mi: int, s: int):
    assert 1 <= y <= 9999 and 1 <= mo <= 12 and 1 <= d <= 28 and 0 <= h <= 23 and 0 <= mi <= 59 and 0 <= s <= 59
    digits.reset()
    dt = datetime(y, mo, d, h, mi, s)
    t = Timex.from_date_time(dt)
    dec = digits.decode(t.timex_value())
    want = [(y, 4), '-', (mo, 2), '-', (d, 2), 'T', (h, 2)]
    if not (mi == 0 and s == 0):
        want += [':', (mi, 2)]
        if s != 0:
            want += [':', (s, 2)]
    assert digits.same(dec, want)
    dd = digits.decode(Timex.from_date(dt).timex_value())
    assert digits.same(dd, [(y, 4), '-', (mo, 2), '-', (d, 2)])
    tt = Timex.from_time(Time(h, mi, s))
    assert digits.same(digits.decode(tt.timex_value()), want[5:])
    assert (tt.hour, tt.minute, tt.second) == (h, mi, s) and tt.year is None


def h_fixed_format(n: int, size: int):
    assert 0 <= n <= 9999 and 1 <= size <= 4 and n < 10 ** size
    s = REAL_FIXED(n, size)
    assert len(s) == size and int(s) == n
    assert all(c in '0123456789' for c in s)
