"""C05 -- number-with-unit parsing: unit-key assembly and table lookup of the real NumberWithUnitParser / BaseCurrencyParser (English
tables), the unit map construction, and the compound-currency arithmetic (z3 floating point)."""
import time

from harness.common import *  # noqa
from lib.symx import assume
from recognizers_text.extractor import ExtractResult
from recognizers_text.parser import ParseResult
from recognizers_number_with_unit.number_with_unit.parsers import NumberWithUnitParser, BaseCurrencyParser, UnitValue
from recognizers_number_with_unit.number_with_unit.english.parsers import (EnglishCurrencyParserConfiguration, EnglishDimensionParserConfiguration,
                                                                             EnglishTemperatureParserConfiguration, EnglishAgeParserConfiguration)
from recognizers_number_with_unit.number_with_unit.utilities import DictionaryUtility
from recognizers_number_with_unit.resources.english_numeric_with_unit import EnglishNumericWithUnit as R
from recognizers_number_with_unit.number_with_unit.constants import Constants as UC

env.assert_repo(NumberWithUnitParser, R, DictionaryUtility)
KIND = sl('kind', 'currency')
CFG = {'currency': EnglishCurrencyParserConfiguration, 'dimension': EnglishDimensionParserConfiguration, 'temperature': EnglishTemperatureParserConfiguration,
       'age': EnglishAgeParserConfiguration}[KIND]()
TABLES = {'currency': [R.CurrencySuffixList, R.CurrencyPrefixList],
          'dimension': [R.InformationSuffixList, R.AreaSuffixList, R.LengthSuffixList, R.SpeedSuffixList, R.VolumeSuffixList, R.WeightSuffixList],
          'temperature': [R.TemperatureSuffixList], 'age': [R.AgeSuffixList]}[KIND]


def canonical_of():
    """independent reading of the tables: a spelling belongs to the first unit that lists it"""
    m = {}
    for t in TABLES:
        for unit, spellings in t.items():
            for s in spellings.strip().split('|'):
                if s and s not in m:
                    m[s] = unit
    return m


CANON = canonical_of()
SPELLINGS = sorted(CANON)
OFF, CNT = sl('off', 0), sl('cnt', 40)
PARSER = NumberWithUnitParser(CFG)


class _Inner:
    def parse(self, er):
        pr = ParseResult(er)
        pr.value, pr.resolution_str = 1, 'RES'
        return pr


CFG._internal_number_parser = _Inner()


def h_unit_lookup(si: int, layout: int, nlen: int, upper: bool):
    """number followed (layouts 0,1) or preceded (2,3) by a listed spelling, with or without a blank, the spelling optionally in upper
    case: the unit is the table's canonical name and the number is the inner parser's resolution"""
    assume(OFF <= si < min(OFF + CNT, len(SPELLINGS)) and 0 <= layout <= 3 and 1 <= nlen <= 3)
    sp = SPELLINGS[int(si)]
    assume((sp != sp.strip()) == bool(sl('blank_kf', 0)))        # known-finding region F12: a listed spelling with a leading/trailing blank
    written = sp.upper() if upper else sp
    # an upper-cased spelling is only expected to be found if its lower-case form is the listed one
    assume(not upper or written.lower() == sp)
    num = '7' * int(nlen)
    layout = int(layout)
    if layout == 0:
        text, nstart = num + ' ' + written, 0
    elif layout == 1:
        text, nstart = num + written, 0
    elif layout == 2:
        text, nstart = written + ' ' + num, len(written) + 1
    else:
        text, nstart = written + num, len(written)
    er = ExtractResult()
    er.start, er.length, er.text, er.type = 3, len(text), text, 'builtin.unit'
    n = ExtractResult()
    n.start, n.length, n.text, n.type = nstart, len(num), num, 'builtin.num'       # start is relative to the unit entity
    er.data = n
    pr = PARSER.parse(er)
    want = CANON[sp]
    if upper and written in CANON:
        want = CANON[written]                                                        # an exact (case-sensitive) entry wins over the lower-cased one
    assert pr.value is not None, (text,)
    assert pr.value.unit == want, (text, pr.value.unit, want)
    assert pr.value.number == 'RES'
    assert pr.start == 3 and pr.length == len(text)


def t_unit_lookup(si: int, layout: int, nlen: int, upper: bool):
    assume(OFF <= si < min(OFF + CNT, len(SPELLINGS)) and 0 <= layout <= 3 and 1 <= nlen <= 3)
    sp = SPELLINGS[int(si)]
    er = ExtractResult()
    er.start, er.length, er.text, er.type = 0, 2 + len(sp), '7 ' + sp, 'builtin.unit'
    n = ExtractResult()
    n.start, n.length, n.text = 0, 1, '7'
    er.data = n
    assert PARSER.parse(er).value is None


def h_bind_dictionary(a: int, b: int, c: int, d: int):
    """DictionaryUtility.bind_dictionary: every spelling maps to the first unit that lists it; empty spellings are ignored"""
    pool = ['x', 'y', 'z', '']
    assume(all(0 <= v < 4 for v in (a, b, c, d)))
    t = {'U1': pool[int(a)] + '|' + pool[int(b)], 'U2': pool[int(c)] + '|' + pool[int(d)]}
    m = {}
    DictionaryUtility.bind_dictionary(t, m)
    want = {}
    for unit in ('U1', 'U2'):
        for s in t[unit].split('|'):
            if s and s not in want:
                want[s] = unit
    assert m == want, (t, m, want)


def h_iso(si: int):
    """single-unit currency: the ISO code is the one the table assigns to the canonical unit; fake ISO codes are not reported"""
    assume(OFF <= si < min(OFF + CNT, len(SPELLINGS)))
    sp = SPELLINGS[int(si)]
    cp = BaseCurrencyParser(CFG)
    text = '7 ' + sp
    er = ExtractResult()
    er.start, er.length, er.text, er.type = 0, len(text), text, UC.SYS_UNIT_CURRENCY
    n = ExtractResult()
    n.start, n.length, n.text = 0, 1, '7'
    er.data = n
    pr = cp.parse(er)
    unit = CANON[sp]
    iso = R.CurrencyNameToIsoCodeMap.get(unit)
    assert pr.value.unit == unit and pr.value.number == 'RES'
    if iso and not iso.startswith('_'):
        assert pr.value.iso_currency == iso
    else:
        assert not getattr(pr.value, 'iso_currency', None)


# ---- compound currency arithmetic: N + M * (1/ratio) in double precision ----------------------------------------------------------
def fp_compound(slice_, timeout):
    """search (z3 QF_FP) for N, M with fl(N + fl(M * fl(1/ratio))) different from the double nearest to (ratio*N + M)/ratio, i.e. a compound
    amount whose printed value is not the decimal N.MM; and (mode 'ulp') prove the result is never more than one ulp away"""
    import z3
    W, ratio, mode = slice_.get('w', 10), slice_.get('ratio', 100), slice_.get('mode', 'exact')
    N = z3.BitVec('N', 40)
    M = z3.BitVec('M', 40)
    F = z3.Float64()
    rm = z3.RNE()
    s = z3.Solver()
    s.set('timeout', int(timeout * 1000))
    s.add(z3.ULT(N, 1 << W), z3.ULT(M, ratio))
    got = z3.fpAdd(rm, z3.fpSignedToFP(rm, N, F), z3.fpMul(rm, z3.fpSignedToFP(rm, M, F), z3.FPVal(1 / ratio, F)))
    exact = z3.fpDiv(rm, z3.fpSignedToFP(rm, N * ratio + M, F), z3.FPVal(float(ratio), F))     # one correctly rounded division of exact integers
    if mode == 'exact':
        s.add(z3.Not(z3.fpEQ(got, exact)))
    else:
        d = z3.fpToIEEEBV(got) - z3.fpToIEEEBV(exact)
        s.add(z3.Not(z3.Or(d == 0, d == 1, d == z3.BitVecVal(-1, 64))))
    t = time.time()
    r = s.check()
    st = round(time.time() - t, 2)
    if r == z3.sat:
        m = s.model()
        return {'state': 'counterexample', 'cex': {'N': m[N].as_long(), 'M': m[M].as_long(), 'ratio': ratio, 'mode': mode},
                'detail': 'N=%d M=%d: the double computed by the parser differs from the nearest double of the decimal amount' % (m[N].as_long(), m[M].as_long()),
                'queries': 1, 'solver_s': st}
    if r == z3.unsat:
        return {'state': 'discharged', 'detail': 'unsat for N < 2^%d, M < %d (%s)' % (W, ratio, mode), 'queries': 1, 'solver_s': st}
    return {'state': 'inconclusive', 'detail': 'z3 unknown after %ss' % st, 'queries': 1, 'solver_s': st}


def fp_compound__replay(slice_, cex):
    n, m, ratio = cex['N'], cex['M'], cex['ratio']
    got = float(n) + float(m) * (1 / ratio)
    want = (n * ratio + m) / ratio
    if cex.get('mode') == 'ulp':
        import math
        bad = abs(got - want) > math.ulp(want)
    else:
        bad = repr(got) != repr(want)
    api = ''
    if ratio == 100 and n >= 1:
        from recognizers_number_with_unit import recognize_currency
        rs = recognize_currency('%d dollars and %d cents' % (n, m), 'en-us')
        api = ' ; recognize_currency -> %r' % [r.resolution for r in rs]
    return {'reproduced': bad, 'detail': 'parser arithmetic gives %r, the amount is %r%s' % (got, want, api)}


def api_witness_f4(slice_, timeout):
    from recognizers_number_with_unit import recognize_currency
    rs = recognize_currency('1 dollar and 14 cents', 'en-us')
    v = rs[0].resolution.get('value') if rs else None
    if v != '1.14':
        return {'state': 'counterexample', 'cex': {'q': '1 dollar and 14 cents'}, 'detail': 'value %r' % v, 'queries': 1}
    return {'state': 'discharged', 'detail': 'ok', 'queries': 1}


def api_witness_f4__replay(slice_, cex):
    r = api_witness_f4(slice_, 0)
    return {'reproduced': r['state'] == 'counterexample', 'detail': r['detail']}
