"""C05 -- number-with-unit parsing: unit-key assembly and table lookup of the real NumberWithUnitParser / BaseCurrencyParser (English
tables), the unit map construction, and the compound-currency arithmetic (z3 floating point)."""
import time

from harness.common import *  # noqa
from lib.symx import assume
from recognizers_text.extractor import ExtractResult
from recognizers_text.parser import ParseResult
from recognizers_number_with_unit.number_with_unit.parsers import NumberWithUnitParser, BaseCurrencyParser, UnitValue
from recognizers_number_with_unit.number_with_unit.english.parsers import (EnglishCurrencyParserConfiguration, EnglishDimensionParserConfiguration,
                                                                             EnglishTemperatureParserConfiguration, EnglishAgeParserConfiguration)
from recognizers_number_with_unit.number_with_unit.utilities import DictionaryUtility
from recognizers_number_with_unit.resources.english_numeric_with_unit import EnglishNumericWithUnit as R
from recognizers_number_with_unit.number_with_unit.constants import Constants as UC

env.assert_repo(NumberWithUnitParser, R, DictionaryUtility)
KIND = sl('kind', 'currency')
CFG = {'currency': EnglishCurrencyParserConfiguration, 'dimension': EnglishDimensionParserConfiguration, 'temperature': EnglishTemperatureParserConfiguration,
       'age': EnglishAgeParserConfiguration}[KIND]()
TABLES = {'currency': [R.CurrencySuffixList, R.CurrencyPrefixList],
          'dimension': [R.InformationSuffixList, R.AreaSuffixList, R.LengthSuffixList, R.SpeedSuffixList, R.VolumeSuffixList, R.WeightSuffixList],
          'temperature': [R.TemperatureSuffixList], 'age': [R.AgeSuffixList]}[KIND]


def canonical_of():
    """independent reading of the tables: a spelling belongs to the first unit that lists it"""
    m = {}
    for t in TABLES:
        for unit, spellings in t.items():
            for s in spellings.strip().split('|'):
                if s and s not in m:
                    m[s] = unit
    return m


CANON = canonical_of()
SPELLINGS = sorted(CANON)
OFF, CNT = sl('off', 0), sl('cnt', 40)
PARSER = NumberWithUnitParser(CFG)


class _Inner:
    def parse(self, er):
        pr = ParseResult(er)
        pr.value, pr.resolution_str = 1, 'RES'
        return pr


CFG._internal_number_parser = _Inner()


def h_unit_lookup(si: int, layout: int, nlen: int, upper: bool):
    """number followed (layouts 0,1) or preceded (2,3) by a listed spelling, with or without a blank, the spelling optionally in upper
    case: the unit is the table's canonical name and the number is the inner parser's resolution"""
    assume(OFF <= si < min(OFF + CNT, len(SPELLINGS)) and 0 <= layout <= 3 and 1 <= nlen <= 3)
    sp = SPELLINGS[int(si)]
    assume((sp != sp.strip()) == bool(sl('blank_kf', 0)))        # known-finding region F12: a listed spelling with a leading/trailing blank
    written = sp.upper() if upper else sp
    # an upper-cased spelling is only expected to be found if its lower-case form is the listed one
    assume(not upper or written.lower() == sp)
    num = '7' * int(nlen)
    layout = int(layout)
    if layout == 0:
        text, nstart = num + ' ' + written, 0
    elif layout == 1:
        text, nstart = num + written, 0
    elif layout == 2:
        text, nstart = written + ' ' + num, len(written) + 1
    else:
        text, nstart = written + num, len(written)
    er = ExtractResult()
    er.start, er.length, er.text, er.type = 3, len(text), text, 'builtin.unit'
    n = ExtractResult()
    n.start, n.length, n.text, n.type = nstart, len(num), num, 'builtin.num'       # start is relative to the unit entity
    er.data = n
    pr = PARSER.parse(er)
    want = CANON[sp]
    if upper and written in CANON:
        want = CANON[written]                                                        # an exact (case-sensitive) entry wins over the lower-cased one
    assert pr.value is not None, (text,)
    assert pr.value.unit == want, (text, pr.value.unit, want)
    assert pr.value.number == 'RES'
    assert pr.start == 3 and pr.length == len(text)


def t_unit_lookup(si: int, layout: int, nlen: int, upper: bool):
    assume(OFF <= si < min(OFF + CNT, len(SPELLINGS)) and 0 <= layout <= 3 and 1 <= nlen <= 3)
    sp = SPELLINGS[int(si)]
    er = ExtractResult()
    er.start, er.length, er.text, er.type = 0, 2 + len(sp), '7 ' + sp, 'builtin.unit'
    n = ExtractResult()
    n.start, n.length, n.text = 0, 1, '7'
    er.data = n
    assert PARSER.parse(er).value is None


def h_bind_dictionary(a: int, b: int, c: int, d: int):
    """DictionaryUtility.bind_dictionary: every spelling maps to the first unit that lists it; empty spellings are ignored"""
    pool = ['x', 'y', 'z', '']
    assume(all(0 <= v < 4 for v in (a, b, c, d)))
    t = {'U1': pool[int(a)] + '|' + pool[int(b)], 'U2': pool[int(c)] + '|' + pool[int(d)]}
    m = {}
    DictionaryUtility.bind_dictionary(t, m)
    want = {}
    for unit in ('U1', 'U2'):
        for s in t[unit].split('|'):
            if s and s not in want:
                want[s] = unit
    assert m == want, (t, m, want)


def h_iso(si: int):
    """single-unit currency: the ISO code is the one the table assigns to the canonical unit; fake ISO codes are not reported"""
    assume(OFF <= si < min(OFF + CNT, len(SPELLINGS)))
    sp = SPELLINGS[int(si)]
    cp = BaseCurrencyParser(CFG)
    text = '7 ' + sp
    er = ExtractResult()
    er.start, er.length, er.text, er.type = 0, len(text), text, UC.SYS_UNIT_CURRENCY
    n = ExtractResult()
    n.start, n.length, n.text = 0, 1, '7'
    er.data = n
    pr = cp.parse(er)
    unit = CANON[sp]
    iso = R.CurrencyNameToIsoCodeMap.get(unit)
    assert pr.value.unit == unit and pr.value.number == 'RES'
    if iso and not iso.startswith('_'):
        assert pr.value.iso_currency == iso
    else:
        assert not getattr(pr.value, 'iso_currency', None)


# ---- compound currency arithmetic: N + M * (1/ratio) in double precision ----------------------------------------------------------
def fp_compound(slice_, timeout):
    """search (z3 QF_FP) for N, M with fl(N + fl(M * fl(1/ratio))) different from the double nearest to (ratio*N + M)/ratio, i.e. a compound
    amount whose printed value is not the decimal N.MM; and (mode 'ulp') prove the result is never more than one ulp away"""
    import z3
    W, ratio, mode = slice_.get('w', 10), slice_.get('ratio', 100), slice_.get('mode', 'exact')
    N = z3.BitVec('N', 40)
    M = z3.BitVec('M', 40)
    F = z3.Float64()
    rm = z3.RNE()
    s = z3.Solver()
    s.set('timeout', int(timeout * 1000))
    s.add(z3.ULT(N, 1 << W), z3.ULT(M, ratio))
    got = z3.fpAdd(rm, z3.fpSignedToFP(rm, N, F), z3.fpMul(rm, z3.fpSignedToFP(rm, M, F), z3.FPVal(1 / ratio, F)))
    exact = z3.fpDiv(rm, z3.fpSignedToFP(rm, N * ratio + M, F), z3.FPVal(float(ratio), F))     # one correctly rounded division of exact integers
    if mode == 'exact':
        s.add(z3.Not(z3.fpEQ(got, exact)))
    else:
        d = z3.fpToIEEEBV(got) - z3.fpToIEEEBV(exact)
        s.add(z3.Not(z3.Or(d == 0, d == 1, d == z3.BitVecVal(-1, 64))))
    t = time.time()
    r = s.check()
    st = round(time.time() - t, 2)
    if r == z3.sat:
        m = s.model()
        return {'state': 'counterexample', 'cex': {'N': m[N].as_long(), 'M': m[M].as_long(), 'ratio': ratio, 'mode': mode},
                'detail': 'N=%d M=%d: the double computed by the parser differs from the nearest double of the decimal amount' % (m[N].as_long(), m[M].as_long()),
                'queries': 1, 'solver_s': st}
    if r == z3.unsat:
        return {'state': 'discharged', 'detail': 'unsat for N < 2^%d, M < %d (%s)' % (W, ratio, mode), 'queries': 1, 'solver_s': st}
    return {'state': 'inconclusive', 'detail': 'z3 unknown after %ss' % st, 'queries': 1, 'solver_s': st}


def fp_compound__replay(slice_, cex):
    n, m, ratio = cex['N'], cex['M'], cex['ratio']
    got = float(n) + float(m) * (1 / ratio)
    want = (n * ratio + m) / ratio
    if cex.get('mode') == 'ulp':
        import math
        bad = abs(got - want) > math.ulp(want)
    else:
        bad = repr(got) != repr(want)
    api = ''
    if ratio == 100 and n >= 1:
        from recognizers_number_with_unit import recognize_currency
        rs = recognize_currency('%d dollars and %d cents' % (n, m), 'en-us')
        api = ' ; recognize_currency -> %r' % [r.resolution for r in rs]
    return {'reproduced': bad, 'detail': 'parser arithmetic gives %r, the amount is %r%s' % (got, want, api)}


def api_witness_f4(slice_, timeout):
    from recognizers_number_with_unit import recognize_currency
    rs = recognize_currency('1 dollar and 14 cents', 'en-us')
    v = rs[0].resolution.get('value') if rs else None
    if v != '1.14':
        return {'state': 'counterexample', 'cex': {'q': '1 dollar and 14 cents'}, 'detail': 'value %r' % v, 'queries': 1}
    return {'state': 'discharged', 'detail': 'ok', 'queries': 1}


def api_witness_f4__replay(slice_, cex):
    r = api_witness_f4(slice_, 0)
    return {'reproduced': r['state'] == 'counterexample', 'detail': r['detail']}


# ---- the compound arithmetic traced from the REAL __merge_compound_unit (proxies for the two numbers) ----------------------------
import sys as _sys  # noqa: E402
_PMOD = _sys.modules['recognizers_number_with_unit.number_with_unit.parsers']


class _Tr:
    """a traced number: a z3 term built by the arithmetic the real code performs on it.  mode 'fp': IEEE double terms (round to
    nearest even, what Python floats do); mode 'real': exact reals, a concrete Python float operand entering with its exact value"""
    MODE = 'real'

    def __init__(self, t):
        self.t = t

    @staticmethod
    def _lift(x):
        import z3
        if isinstance(x, _Tr):
            return x.t
        if isinstance(x, (int, float)) and not isinstance(x, bool):
            if _Tr.MODE == 'fp':
                return z3.FPVal(float(x), z3.Float64())
            from fractions import Fraction
            fr = Fraction(x)
            return z3.RealVal(fr.numerator) / z3.RealVal(fr.denominator)
        raise TypeError('traced number combined with %r' % (x,))

    def _bin(self, o, fp, real, swap=False):
        import z3
        a, b = self.t, _Tr._lift(o)
        if swap:
            a, b = b, a
        return _Tr(fp(z3.RNE(), a, b) if _Tr.MODE == 'fp' else real(a, b))

    def __add__(self, o):
        import z3
        return self._bin(o, z3.fpAdd, lambda a, b: a + b)

    def __radd__(self, o):
        import z3
        return self._bin(o, z3.fpAdd, lambda a, b: a + b, True)

    def __sub__(self, o):
        import z3
        return self._bin(o, z3.fpSub, lambda a, b: a - b)

    def __mul__(self, o):
        import z3
        return self._bin(o, z3.fpMul, lambda a, b: a * b)

    def __rmul__(self, o):
        import z3
        return self._bin(o, z3.fpMul, lambda a, b: a * b, True)

    def __truediv__(self, o):
        import z3
        return self._bin(o, z3.fpDiv, lambda a, b: a / b)

    def __bool__(self):
        return True          # the harness assumes a non-zero amount (N >= 1)


class _NumText:
    """what UnitValue.number holds (the resolution string of the inner number); float() of it is the traced number"""
    def __init__(self, tr):
        self.tr = tr

    def __bool__(self):
        return True


def _traced_float(x):
    if isinstance(x, _NumText):
        return x.tr
    if isinstance(x, _Tr):
        return x
    return float(x)


class _Capture:
    def format(self, v):
        return v             # culture_info.format(number_value): hand the traced amount back unchanged


def fraction_pairs():
    """(main unit name, ISO, fraction unit name, ratio) for every pair the real English configuration wires together"""
    cfg = EnglishCurrencyParserConfiguration()
    from recognizers_number_with_unit.number_with_unit.utilities import DictionaryUtility as DU
    out = []
    for main, iso in sorted(cfg.currency_name_to_iso_code_map.items()):
        fus = cfg.currency_fraction_mapping.get(iso)
        if not iso or iso.startswith(UC.FAKE_ISO_CODE_PREFIX) or not fus:
            continue
        um = {}
        DU.bind_units_string(um, '', fus)
        for fname, code in sorted(cfg.currency_fraction_code_list.items()):
            ratio = cfg.currency_fraction_num_map.get(fname)
            if code in um and ratio:
                out.append((main, iso, fname, ratio))
    return out


def _trace_compound(main, fname, Nt, Mt):
    """run the real BaseCurrencyParser.__merge_compound_unit on [main amount, fraction amount]; returns the traced value term, unit, iso"""
    cfg = EnglishCurrencyParserConfiguration()
    cfg.culture_info = _Capture()
    p = BaseCurrencyParser(cfg)

    class _NWU:
        def parse(self, er):
            pr = ParseResult(er)
            pr.value = UnitValue(_NumText(Nt if er.data == 'main' else Mt), main if er.data == 'main' else fname)
            pr.resolution_str = 'R'
            return pr
    p.number_with_unit_parser = _NWU()
    e1, e2 = ExtractResult(), ExtractResult()
    e1.start, e1.length, e1.text, e1.type, e1.data = 0, 5, 'AAAAA', UC.SYS_UNIT_CURRENCY, 'main'
    e2.start, e2.length, e2.text, e2.type, e2.data = 10, 4, 'BBBB', UC.SYS_UNIT_CURRENCY, 'frac'
    comp = ExtractResult()
    comp.start, comp.length, comp.text, comp.type, comp.data = 0, 14, 'AAAAA and BBBB', UC.SYS_UNIT_CURRENCY, [e1, e2]
    saved = getattr(_PMOD, 'float', None)
    _PMOD.float = _traced_float
    try:
        pr = p._BaseCurrencyParser__merge_compound_unit(comp)
    finally:
        if saved is None:
            del _PMOD.float
        else:
            _PMOD.float = saved
    return pr


def compound_real(slice_, timeout):
    """every (main unit, fraction unit) pair of the real tables, batch `b` of `nb`: the real merge code, traced over exact reals,
    yields ONE entity spanning both parts, the main unit and its ISO code, worth N + M/ratio up to the rounding of the constant 1/ratio"""
    import z3
    pairs = fraction_pairs()
    b, nb = slice_.get('b', 0), slice_.get('nb', 1)
    mine = pairs[b::nb]
    _Tr.MODE = 'real'
    N, M = z3.Int('N'), z3.Int('M')
    q = st = 0
    for main, iso, fname, ratio in mine:
        pr = _trace_compound(main, fname, _Tr(z3.ToReal(N)), _Tr(z3.ToReal(M)))
        vals = pr.value
        ok = isinstance(vals, list) and len(vals) == 1 and isinstance(vals[0].value.number, _Tr) and vals[0].value.unit == main \
            and getattr(vals[0].value, 'iso_currency', iso) == iso and vals[0].start == 0 and vals[0].length == 14
        if not ok:
            return {'state': 'counterexample', 'cex': {'main': main, 'fraction': fname, 'N': 3, 'M': 1, 'structure': True},
                    'detail': 'main+fraction did not merge into one entity with the main unit / ISO / whole span: %r' % [(v.start, v.length, getattr(v.value, '__dict__', v.value)) for v in vals][:2], 'queries': q}
        got = vals[0].value.number.t
        s = z3.Solver()
        s.set('timeout', int(timeout * 1000))
        exact = z3.ToReal(N) + z3.ToReal(M) / ratio
        d = got - exact
        s.add(N >= 1, N < 10 ** 12, M >= 0, M < ratio, z3.Or(d > z3.RealVal(1) / 2 ** 52, -d > z3.RealVal(1) / 2 ** 52))
        t0 = time.time()
        r = s.check()
        st += time.time() - t0
        q += 1
        if r == z3.sat:
            m = s.model()
            n_, m_ = m.eval(N, True).as_long(), m.eval(M, True).as_long()
            return {'state': 'counterexample', 'cex': {'main': main, 'fraction': fname, 'N': n_, 'M': m_, 'ratio': ratio},
                    'detail': '%d %s and %d %s is not worth %d + %d/%d' % (n_, main, m_, fname, n_, m_, ratio), 'queries': q, 'solver_s': round(st, 2)}
        if r != z3.unsat:
            return {'state': 'inconclusive', 'detail': 'z3 unknown', 'queries': q}
    return {'state': 'discharged', 'detail': '%d main/fraction pairs, unsat each (N < 10^12, M < ratio)' % len(mine), 'queries': q, 'solver_s': round(st, 2),
            'sample': {'pairs': mine[:3]}}


def compound_real__replay(slice_, cex):
    """the same pair through the real code with ordinary floats"""
    class _F(float):
        pass
    main, fname, n_, m_ = cex['main'], cex['fraction'], cex['N'], cex['M']
    pr = _trace_compound(main, fname, float(n_), float(m_))
    vals = pr.value
    if cex.get('structure'):
        bad = not (len(vals) == 1 and vals[0].value.unit == main and vals[0].start == 0 and vals[0].length == 14)
        return {'reproduced': bad, 'detail': repr([(v.start, v.length) for v in vals])}
    got = vals[0].value.number
    want = n_ + m_ / cex['ratio']
    return {'reproduced': abs(got - want) > 2 ** -20, 'detail': 'real code gives %r, the amount is %r' % (got, want)}


def fp_compound_traced(slice_, timeout):
    """F4 region and ulp bound on the double-precision term traced from the real code (US dollar / cent)"""
    import z3
    W, mode = slice_.get('w', 8), slice_.get('mode', 'exact')
    main, iso, fname, ratio = [p for p in fraction_pairs() if p[0] == 'United States dollar' and p[2] == 'Cent'][0]
    _Tr.MODE = 'fp'
    N, M = z3.BitVec('N', 40), z3.BitVec('M', 40)
    F, rm = z3.Float64(), z3.RNE()
    pr = _trace_compound(main, fname, _Tr(z3.fpSignedToFP(rm, N, F)), _Tr(z3.fpSignedToFP(rm, M, F)))
    got = pr.value[0].value.number.t
    _Tr.MODE = 'real'
    s = z3.Solver()
    s.set('timeout', int(timeout * 1000))
    s.add(z3.ULT(N, 1 << W), z3.UGE(N, 1), z3.ULT(M, ratio))
    exact = z3.fpDiv(rm, z3.fpSignedToFP(rm, N * ratio + M, F), z3.FPVal(float(ratio), F))
    if mode == 'exact':
        s.add(z3.Not(z3.fpEQ(got, exact)))
    else:
        d = z3.fpToIEEEBV(got) - z3.fpToIEEEBV(exact)
        s.add(z3.Not(z3.Or(d == 0, d == 1, d == z3.BitVecVal(-1, 64))))
    t = time.time()
    r = s.check()
    st = round(time.time() - t, 2)
    if r == z3.sat:
        m = s.model()
        return {'state': 'counterexample', 'cex': {'N': m[N].as_long(), 'M': m[M].as_long(), 'ratio': ratio, 'mode': mode},
                'detail': 'N=%d M=%d: the double computed by the real merge code differs from the nearest double of the decimal amount' % (m[N].as_long(), m[M].as_long()),
                'queries': 1, 'solver_s': st}
    if r == z3.unsat:
        return {'state': 'discharged', 'detail': 'unsat for 1 <= N < 2^%d, M < %d (%s)' % (W, ratio, mode), 'queries': 1, 'solver_s': st}
    return {'state': 'inconclusive', 'detail': 'z3 unknown after %ss' % st, 'queries': 1, 'solver_s': st}


fp_compound_traced__replay = fp_compound__replay
