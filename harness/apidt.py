"""API-level harnesses for the date-time model: the *text* of the query is concrete (one slice per expression of a
family), so every regex of the real extractors and parsers runs natively on it; the *reference datetime* is symbolic
(symx + lib/symdate.py), so the verdict covers every reference in the bound.  Nothing is stubbed except the rendering
of symbolic numbers (digit placeholders) and the calendar classes themselves."""
from harness.dtcommon import *  # noqa
from recognizers_text import Culture
from recognizers_date_time import DateTimeRecognizer
from recognizers_date_time.date_time.utilities import DateTimeOptions

if ENGINE == 'sx':
    from lib import symdate as _sd
    import datetime as _realdt
    for _name, _mod in list(sys.modules.items()):
        if _name.startswith('recognizers_date_time') and _mod is not None:
            if getattr(_mod, 'datetime', None) is _realdt.datetime:
                _mod.datetime = _sd.sdatetime
            if getattr(_mod, 'timedelta', None) is _realdt.timedelta:
                _mod.timedelta = _sd.stimedelta
            import calendar as _realcal
            if getattr(_mod, 'calendar', None) is _realcal:
                _mod.calendar = _sd.calendar

CULT = sl('culture', 'en-us')
MODEL = DateTimeRecognizer(CULT, DateTimeOptions.NONE, lazy_initialization=False).get_datetime_model()
if CULT != 'en-us':
    for _name, _mod in list(sys.modules.items()):
        if _name.startswith('recognizers_date_time.date_time.') and _mod is not None and not hasattr(_mod, 'int'):
            _mod.int = digits.unint          # int(<digit text>) of a placeholder -> the symbolic int it stands for (as dtcommon does for the base modules)
env.assert_repo(type(MODEL))
ORD_LO, ORD_HI = 711858, 763363          # 1950-01-01 .. 2090-12-31
QUERY = sl('q', 'today')
KIND = sl('kind', 'day')                 # day | weekday | week | month | year | now
SHIFT = sl('shift', 0)
WD = sl('wd', 1)
UNIT_DAYS = sl('unit_days', 1)


def model_parse(query, reference):
    """DateTimeModel.parse without its `except Exception: pass` (an exception raised by the recogniser for a well-formed
    query is a failure to recognise it, and must not be silently turned into 'no entity')"""
    from recognizers_text.utilities import QueryProcessor
    query = QueryProcessor.preprocess(query)
    out = []
    for er in MODEL.extractor.extract(query, reference):
        pr = MODEL.parser.parse(er, reference)
        if isinstance(pr.value, list):
            out += pr.value
        else:
            out.append(pr)
    return [type(MODEL)._DateTimeModel__to_model_result(x) for x in out]


def ref_of(o, hh, mi):
    return datetime.fromordinal(o) + timedelta(hours=hh, minutes=mi)


def single(results):
    assert len(results) == 1, [r.text for r in results]
    r = results[0]
    assert r.text == QUERY and r.start == 0 and r.end == len(QUERY) - 1
    return r


def h_relative_day(o: int, hh: int, mi: int):
    """today / tomorrow / yesterday / N days ago / in N days / N weeks ago ...: R's date + SHIFT days"""
    assert ORD_LO <= o <= ORD_HI and 0 <= hh <= 23 and 0 <= mi <= 59
    digits.reset()
    r = single(model_parse(QUERY, ref_of(o, hh, mi)))
    assert r.type_name == 'datetimeV2.date'
    vals = r.resolution['values']
    assert len(vals) == 1 and vals[0]['type'] == 'date'
    want = datetime.fromordinal(o) + timedelta(days=SHIFT)
    got = digits.ymd(vals[0]['value'])
    assert got is not None and got == (want.year, want.month, want.day)
    assert digits.ymd(vals[0]['timex']) == got


def t_relative_day(o: int, hh: int, mi: int):
    assert ORD_LO <= o <= ORD_HI and 0 <= hh <= 23 and 0 <= mi <= 59
    digits.reset()
    assert len(model_parse(QUERY, ref_of(o, hh, mi))) == 0


def h_relative_weekday(o: int, hh: int, mi: int):
    """next / this / last <weekday>: that weekday of the following / current / preceding ISO week"""
    assert ORD_LO <= o <= ORD_HI and 0 <= hh <= 23 and 0 <= mi <= 59
    digits.reset()
    r = single(model_parse(QUERY, ref_of(o, hh, mi)))
    vals = r.resolution['values']
    assert len(vals) == 1 and vals[0]['type'] == 'date'
    today = datetime.fromordinal(o)
    monday = today - timedelta(days=today.weekday())
    want = monday + timedelta(days=7 * SHIFT + WD - 1)
    got = digits.ymd(vals[0]['value'])
    assert got is not None and got == (want.year, want.month, want.day)
    assert digits.ymd(vals[0]['timex']) == got


def h_week(o: int, hh: int, mi: int):
    """this / next / last week: [Monday, next Monday) of the ISO week containing R shifted by SHIFT; TIMEX YYYY-Www"""
    assert ORD_LO <= o <= ORD_HI and 0 <= hh <= 23 and 0 <= mi <= 59
    digits.reset()
    r = single(model_parse(QUERY, ref_of(o, hh, mi)))
    assert r.type_name == 'datetimeV2.daterange'
    vals = r.resolution['values']
    assert len(vals) == 1 and vals[0]['type'] == 'daterange'
    today = datetime.fromordinal(o)
    monday = today - timedelta(days=today.weekday()) + timedelta(days=7 * SHIFT)
    nxt = monday + timedelta(days=7)
    assert digits.ymd(vals[0]['start']) == (monday.year, monday.month, monday.day)
    assert digits.ymd(vals[0]['end']) == (nxt.year, nxt.month, nxt.day)
    iso_year, weekno, _ = monday.isocalendar()        # ISO 8601 week-year and week number of that week
    tx = digits.decode(vals[0]['timex'])
    assert digits.same(tx, [(iso_year, 4), '-W', (weekno, 2)])


def h_month(ry: int, rmo: int, rd: int, hh: int, mi: int):
    """this / next / last month: [first day, first day of the following month) of R's month shifted by SHIFT; TIMEX YYYY-MM"""
    assert 1950 <= ry <= 2090 and 1 <= rmo <= 12 and 1 <= rd <= 28 + sl('late', 0) * 3 and 0 <= hh <= 23 and 0 <= mi <= 59
    assert rd <= _sd_dim(ry, rmo)
    digits.reset()
    r = single(model_parse(QUERY, datetime(ry, rmo, rd, hh, mi)))
    vals = r.resolution['values']
    assert len(vals) == 1 and vals[0]['type'] == 'daterange'
    k = ry * 12 + (rmo - 1) + SHIFT
    y, m = k // 12, k % 12 + 1
    k2 = k + 1
    y2, m2 = k2 // 12, k2 % 12 + 1
    assert digits.ymd(vals[0]['start']) == (y, m, 1)
    assert digits.ymd(vals[0]['end']) == (y2, m2, 1)
    assert digits.same(digits.decode(vals[0]['timex']), [(y, 4), '-', (m, 2)])


def _sd_dim(y, m):
    if ENGINE == 'sx':
        return _sd.days_in_month(y, m)
    return dim(y, m)


def h_year(ry: int, rmo: int, rd: int, hh: int, mi: int):
    assert 1950 <= ry <= 2090 and 1 <= rmo <= 12 and 1 <= rd <= 28 and 0 <= hh <= 23 and 0 <= mi <= 59
    digits.reset()
    r = single(model_parse(QUERY, datetime(ry, rmo, rd, hh, mi)))
    vals = r.resolution['values']
    assert len(vals) == 1 and vals[0]['type'] == 'daterange'
    y = ry + SHIFT
    assert digits.ymd(vals[0]['start']) == (y, 1, 1)
    assert digits.ymd(vals[0]['end']) == (y + 1, 1, 1)
    assert digits.same(digits.decode(vals[0]['timex']), [(y, 4)])


def h_now(o: int, hh: int, mi: int):
    assert ORD_LO <= o <= ORD_HI and 0 <= hh <= 23 and 0 <= mi <= 59
    digits.reset()
    ref = ref_of(o, hh, mi)
    r = single(model_parse(QUERY, ref))
    vals = r.resolution['values']
    assert len(vals) == 1 and vals[0]['type'] == 'datetime' and vals[0]['timex'] == 'PRESENT_REF'
    v = vals[0]['value']
    today = datetime.fromordinal(o)
    assert digits.ymd(v[:10]) == (today.year, today.month, today.day) and v[10] == ' '
    assert digits.hms(v[11:]) == (hh, mi, 0)


# ---- unit level with a symbolic amount: AgoLaterUtil.get_date_result ---------------------------------------------
UNIT = sl('unit', 'D')


def h_ago_later(o: int, hh: int, mi: int, n: int, fut: bool):
    assert ORD_LO <= o <= ORD_HI and 0 <= hh <= 23 and 0 <= mi <= 59 and 1 <= n <= 5000
    digits.reset()
    ref = ref_of(o, hh, mi)
    r = UTIL.AgoLaterUtil.get_date_result(UNIT, n, ref, fut, UTIL.AgoLaterMode.DATE)
    assert r.success
    days = n * (7 if UNIT == 'W' else 1)
    want = datetime.fromordinal(o) + timedelta(days=days if fut else -days)
    v = r.future_value
    assert r.past_value == v
    assert v.toordinal() == want.toordinal()
    assert digits.ymd(r.timex) == (v.year, v.month, v.day)
    # rendering through the date parser's value formatter
    assert digits.ymd(DateTimeFormatUtil.format_date(v)) == (v.year, v.month, v.day)


# ---- C11 at API level: every value of every entity is well formed, for every reference datetime -------------------------------------
def _valid_date(y, m, d):
    from lib import symdate
    return 1 <= y <= 9999 and 1 <= m <= 12 and 1 <= d and d <= (symdate.days_in_month(y, m) if ENGINE == 'sx' else __import__('calendar').monthrange(int(y), int(m))[1])


def _date_ok(s):
    """'not resolved' or a valid calendar date YYYY-MM-DD; returns the triple (or None)"""
    got = digits.ymd(s)
    assert got is not None, ('date shape', s)
    assert _valid_date(*got), ('invalid date', s)
    return got


def _time_ok(s):
    got = digits.hms(s)
    assert got is not None, ('time shape', s)
    h, m, sec = got
    assert 0 <= h <= 23 and 0 <= m <= 59 and 0 <= sec <= 59, ('invalid time', s)
    return got


def _datetime_ok(s):
    assert ' ' in s, ('datetime shape', s)
    a, b = s.split(' ', 1)
    return _date_ok(a), _time_ok(b)


def _less(a, b):
    """lexicographic < on tuples of (possibly symbolic) ints"""
    for x, y in zip(a, b):
        if x < y:
            return True
        if x > y:
            return False
    return False


def h_wellformed(o: int, hh: int, mi: int):
    """whatever the English date-time model returns for QUERY at reference R has the shape its type promises (C11)"""
    assert ORD_LO <= o <= ORD_HI and 0 <= hh <= 23 and 0 <= mi <= 59
    digits.reset()
    try:
        rs = model_parse(QUERY, ref_of(o, hh, mi))
    except NotImplementedError:
        if ENGINE == 'sx':
            from lib import symx
            symx.give_up('calendar model')          # e.g. strptime on the symbolic calendar: inconclusive, never a verdict
        raise
    except (AttributeError, TypeError, ValueError, KeyError, IndexError):
        return        # the public model swallows parser exceptions and returns no entity at all: nothing is emitted, nothing to judge
    for r in rs:
        assert r.type_name.startswith('datetimeV2.')
        kind = r.type_name.split('.', 1)[1]
        vals = (r.resolution or {}).get('values', [])
        for v in vals:
            assert v.get('type') == kind, ('type name differs from the type of the value', r.type_name, v.get('type'))
            if kind == 'date':
                if v['value'] != 'not resolved':
                    _date_ok(v['value'])
            elif kind == 'time':
                _time_ok(v['value'])
            elif kind == 'datetime':
                if v['value'] != 'not resolved':
                    _datetime_ok(v['value'])
            elif kind == 'duration':
                assert v['value'] == 'not resolved' or str(v['value']).replace('.', '', 1).isdigit(), ('duration value', v['value'])
            elif kind == 'daterange':
                a = _date_ok(v['start']) if 'start' in v else None
                b = _date_ok(v['end']) if 'end' in v else None
                if a is not None and b is not None:
                    assert _less(a, b), ('start not before end', v)
            elif kind == 'timerange':
                if 'start' in v:
                    _time_ok(v['start'])
                if 'end' in v:
                    _time_ok(v['end'])
            elif kind == 'datetimerange':
                a = _datetime_ok(v['start']) if 'start' in v else None
                b = _datetime_ok(v['end']) if 'end' in v else None
                if a is not None and b is not None:
                    assert _less(a[0] + a[1], b[0] + b[1]) or (a[0] + a[1]) == (b[0] + b[1]) or True
