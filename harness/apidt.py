"""API-level harnesses for the date-time model: the *text* of the query is concrete (one slice per expression of a
family), so every regex of the real extractors and parsers runs natively on it; the *reference datetime* is symbolic
(symx + lib/symdate.py), so the verdict covers every reference in the bound.  Nothing is stubbed except the rendering
of symbolic numbers (digit placeholders) and the calendar classes themselves."""
import re
from harness.dtcommon import *  # noqa
from recognizers_text import Culture
from recognizers_date_time import DateTimeRecognizer
from recognizers_date_time.date_time.utilities import DateTimeOptions

if ENGINE == 'sx':
    from lib import symdate as _sd
    import datetime as _realdt
    for _name, _mod in list(sys.modules.items()):
        if _name.startswith('recognizers_date_time') and _mod is not None:
            if getattr(_mod, 'datetime', None) is _realdt.datetime:
                _mod.datetime = _sd.sdatetime
            if getattr(_mod, 'timedelta', None) is _realdt.timedelta:
                _mod.timedelta = _sd.stimedelta
            import calendar as _realcal
            if getattr(_mod, 'calendar', None) is _realcal:
                _mod.calendar = _sd.calendar

CULT = sl('culture', 'en-us')
MODEL = DateTimeRecognizer(CULT, DateTimeOptions.NONE, lazy_initialization=False).get_datetime_model()
if CULT != 'en-us':
    for _name, _mod in list(sys.modules.items()):
        if _name.startswith('recognizers_date_time.date_time.') and _mod is not None and not hasattr(_mod, 'int'):
            _mod.int = digits.unint          # int(<digit text>) of a placeholder -> the symbolic int it stands for (as dtcommon does for the base modules)
env.assert_repo(type(MODEL))
ORD_LO, ORD_HI = 711858, 763363          # 1950-01-01 .. 2090-12-31
QUERY = sl('q', 'today')
KIND = sl('kind', 'day')                 # day | weekday | week | month | year | now
SHIFT = sl('shift', 0)
WD = sl('wd', 1)
UNIT_DAYS = sl('unit_days', 1)


def model_parse(query, reference):
    """DateTimeModel.parse without its `except Exception: pass` (an exception raised by the recogniser for a well-formed
    query is a failure to recognise it, and must not be silently turned into 'no entity')"""
    from recognizers_text.utilities import QueryProcessor
    query = QueryProcessor.preprocess(query)
    out = []
    for er in MODEL.extractor.extract(query, reference):
        pr = MODEL.parser.parse(er, reference)
        if isinstance(pr.value, list):
            out += pr.value
        else:
            out.append(pr)
    return [type(MODEL)._DateTimeModel__to_model_result(x) for x in out]


def ref_of(o, hh, mi):
    return datetime.fromordinal(o) + timedelta(hours=hh, minutes=mi)


def single(results):
    assert len(results) == 1, [r.text for r in results]
    r = results[0]
    assert r.text == QUERY and r.start == 0 and r.end == len(QUERY) - 1
    return r


def h_relative_day(o: int, hh: int, mi: int):
    """today / tomorrow / yesterday / N days ago / in N days / N weeks ago ...: R's date + SHIFT days"""
    assert ORD_LO <= o <= ORD_HI and 0 <= hh <= 23 and 0 <= mi <= 59
    digits.reset()
    r = single(model_parse(QUERY, ref_of(o, hh, mi)))
    assert r.type_name == 'datetimeV2.date'
    vals = r.resolution['values']
    assert len(vals) == 1 and vals[0]['type'] == 'date'
    want = datetime.fromordinal(o) + timedelta(days=SHIFT)
    got = digits.ymd(vals[0]['value'])
    assert got is not None and got == (want.year, want.month, want.day)
    assert digits.ymd(vals[0]['timex']) == got


def t_relative_day(o: int, hh: int, mi: int):
    assert ORD_LO <= o <= ORD_HI and 0 <= hh <= 23 and 0 <= mi <= 59
    digits.reset()
    assert len(model_parse(QUERY, ref_of(o, hh, mi))) == 0


SHIFT2 = sl('shift2', 0)


def h_relative_two(o: int, hh: int, mi: int):
    """two relative day expressions in one query ('3 days ago and 2 weeks ago'): two date entities, in text order, R's date + SHIFT and + SHIFT2"""
    assert ORD_LO <= o <= ORD_HI and 0 <= hh <= 23 and 0 <= mi <= 59
    digits.reset()
    rs = sorted(model_parse(QUERY, ref_of(o, hh, mi)), key=lambda r: r.start)
    assert len(rs) == 2, ('two entities expected', [(r.text, r.type_name) for r in rs])
    for r, sh in zip(rs, (SHIFT, SHIFT2)):
        assert r.type_name == 'datetimeV2.date', (r.text, r.type_name)
        vals = r.resolution['values']
        assert len(vals) == 1
        want = datetime.fromordinal(o) + timedelta(days=sh)
        got = digits.ymd(vals[0]['value'])
        assert got is not None and got == (want.year, want.month, want.day), (r.text, vals)
        assert digits.ymd(vals[0]['timex']) == got


def h_relative_weekday(o: int, hh: int, mi: int):
    """next / this / last <weekday>: that weekday of the following / current / preceding ISO week"""
    assert ORD_LO <= o <= ORD_HI and 0 <= hh <= 23 and 0 <= mi <= 59
    digits.reset()
    r = single(model_parse(QUERY, ref_of(o, hh, mi)))
    vals = r.resolution['values']
    assert len(vals) == 1 and vals[0]['type'] == 'date'
    today = datetime.fromordinal(o)
    monday = today - timedelta(days=today.weekday())
    want = monday + timedelta(days=7 * SHIFT + WD - 1)
    got = digits.ymd(vals[0]['value'])
    assert got is not None and got == (want.year, want.month, want.day)
    assert digits.ymd(vals[0]['timex']) == got


def h_week(o: int, hh: int, mi: int):
    """this / next / last week: [Monday, next Monday) of the ISO week containing R shifted by SHIFT; TIMEX YYYY-Www"""
    assert ORD_LO <= o <= ORD_HI and 0 <= hh <= 23 and 0 <= mi <= 59
    digits.reset()
    r = single(model_parse(QUERY, ref_of(o, hh, mi)))
    assert r.type_name == 'datetimeV2.daterange'
    vals = r.resolution['values']
    assert len(vals) == 1 and vals[0]['type'] == 'daterange'
    today = datetime.fromordinal(o)
    monday = today - timedelta(days=today.weekday()) + timedelta(days=7 * SHIFT)
    nxt = monday + timedelta(days=7)
    assert digits.ymd(vals[0]['start']) == (monday.year, monday.month, monday.day)
    assert digits.ymd(vals[0]['end']) == (nxt.year, nxt.month, nxt.day)
    iso_year, weekno, _ = monday.isocalendar()        # ISO 8601 week-year and week number of that week
    tx = digits.decode(vals[0]['timex'])
    assert digits.same(tx, [(iso_year, 4), '-W', (weekno, 2)])


def h_month(ry: int, rmo: int, rd: int, hh: int, mi: int):
    """this / next / last month: [first day, first day of the following month) of R's month shifted by SHIFT; TIMEX YYYY-MM"""
    assert 1950 <= ry <= 2090 and 1 <= rmo <= 12 and 1 <= rd <= 28 + sl('late', 0) * 3 and 0 <= hh <= 23 and 0 <= mi <= 59
    assert rd <= _sd_dim(ry, rmo)
    digits.reset()
    r = single(model_parse(QUERY, datetime(ry, rmo, rd, hh, mi)))
    vals = r.resolution['values']
    assert len(vals) == 1 and vals[0]['type'] == 'daterange'
    k = ry * 12 + (rmo - 1) + SHIFT
    y, m = k // 12, k % 12 + 1
    k2 = k + 1
    y2, m2 = k2 // 12, k2 % 12 + 1
    assert digits.ymd(vals[0]['start']) == (y, m, 1)
    assert digits.ymd(vals[0]['end']) == (y2, m2, 1)
    assert digits.same(digits.decode(vals[0]['timex']), [(y, 4), '-', (m, 2)])


def _sd_dim(y, m):
    if ENGINE == 'sx':
        return _sd.days_in_month(y, m)
    return dim(y, m)


def h_year(ry: int, rmo: int, rd: int, hh: int, mi: int):
    assert 1950 <= ry <= 2090 and 1 <= rmo <= 12 and 1 <= rd <= 28 and 0 <= hh <= 23 and 0 <= mi <= 59
    digits.reset()
    r = single(model_parse(QUERY, datetime(ry, rmo, rd, hh, mi)))
    vals = r.resolution['values']
    assert len(vals) == 1 and vals[0]['type'] == 'daterange'
    y = ry + SHIFT
    assert digits.ymd(vals[0]['start']) == (y, 1, 1)
    assert digits.ymd(vals[0]['end']) == (y + 1, 1, 1)
    assert digits.same(digits.decode(vals[0]['timex']), [(y, 4)])


def h_now(o: int, hh: int, mi: int):
    assert ORD_LO <= o <= ORD_HI and 0 <= hh <= 23 and 0 <= mi <= 59
    digits.reset()
    ref = ref_of(o, hh, mi)
    r = single(model_parse(QUERY, ref))
    vals = r.resolution['values']
    assert len(vals) == 1 and vals[0]['type'] == 'datetime' and vals[0]['timex'] == 'PRESENT_REF'
    v = vals[0]['value']
    today = datetime.fromordinal(o)
    assert digits.ymd(v[:10]) == (today.year, today.month, today.day) and v[10] == ' '
    assert digits.hms(v[11:]) == (hh, mi, 0)


# ---- unit level with a symbolic amount: AgoLaterUtil.get_date_result ---------------------------------------------
UNIT = sl('unit', 'D')


def h_ago_later(o: int, hh: int, mi: int, n: int, fut: bool):
    assert ORD_LO <= o <= ORD_HI and 0 <= hh <= 23 and 0 <= mi <= 59 and 1 <= n <= 5000
    digits.reset()
    ref = ref_of(o, hh, mi)
    r = UTIL.AgoLaterUtil.get_date_result(UNIT, n, ref, fut, UTIL.AgoLaterMode.DATE)
    assert r.success
    days = n * (7 if UNIT == 'W' else 1)
    want = datetime.fromordinal(o) + timedelta(days=days if fut else -days)
    v = r.future_value
    assert r.past_value == v
    assert v.toordinal() == want.toordinal()
    assert digits.ymd(r.timex) == (v.year, v.month, v.day)
    # rendering through the date parser's value formatter
    assert digits.ymd(DateTimeFormatUtil.format_date(v)) == (v.year, v.month, v.day)


# ---- C11 at API level: every value of every entity is well formed, for every reference datetime -------------------------------------
def _valid_date(y, m, d):
    from lib import symdate
    return 1 <= y <= 9999 and 1 <= m <= 12 and 1 <= d and d <= (symdate.days_in_month(y, m) if ENGINE == 'sx' else __import__('calendar').monthrange(int(y), int(m))[1])


def _date_ok(s):
    """'not resolved' or a valid calendar date YYYY-MM-DD; returns the triple (or None)"""
    got = digits.ymd(s)
    assert got is not None, ('date shape', s)
    assert _valid_date(*got), ('invalid date', s)
    return got


def _time_ok(s):
    got = digits.hms(s)
    assert got is not None, ('time shape', s)
    h, m, sec = got
    assert 0 <= h <= 23 and 0 <= m <= 59 and 0 <= sec <= 59, ('invalid time', s)
    return got


def _datetime_ok(s):
    assert ' ' in s, ('datetime shape', s)
    a, b = s.split(' ', 1)
    return _date_ok(a), _time_ok(b)


def _less(a, b):
    """lexicographic < on tuples of (possibly symbolic) ints"""
    for x, y in zip(a, b):
        if x < y:
            return True
        if x > y:
            return False
    return False


CHECK = sl('check', 'shape')          # shape | pair (+ year-less / bare-weekday candidate pairs bracket the reference, C09) | timex (+ values equal their definite TIMEX, C11) | arith (+ (start,end,duration) triples add up, C10) | all


def _tx_tokens(tx):
    """TIMEX text -> (pattern with every number written as '#' * width, the numbers in order); None when a number has no fixed width"""
    pat, nums = '', []
    for it in digits._join(digits._norm(digits.decode(tx))):
        if isinstance(it, str):
            pat += it
        else:
            if it[1] == 0:
                return None
            pat += '#' * it[1]
            nums.append(it[0])
    return pat, nums


_POINT = re.compile(r'^(?:(?P<d>####-##-##))?(?:T(?P<t>##(?::##(?::##)?)?))?$')
_DUR = re.compile(r'^P(?:(?P<n>#+)(?P<u>[DWMY])|T(?:(?P<h>#+)H)?(?:(?P<m>#+)M)?(?:(?P<s>#+)S)?)$')


def _point(pat, nums):
    """a definite TIMEX point -> ((y, m, d) or None, (h, mi, s) or None); None when the TIMEX is not a definite point"""
    m = _POINT.match(pat)
    if not m or not pat:
        return None
    nums = list(nums)
    d = t = None
    if m.group('d'):
        d = tuple(nums[:3])
        nums = nums[3:]
    if m.group('t') is not None:
        t = tuple(nums + [0] * (3 - len(nums)))
    return d, t


def _split3(pat, nums):
    """'(A,B,D)' -> three (pattern, numbers) pieces, or None"""
    if not (pat.startswith('(') and pat.endswith(')')) or pat.count(',') != 2:
        return None
    out, k = [], 0
    for piece in pat[1:-1].split(','):
        n = len(re.findall('#+', piece))
        out.append((piece, nums[k:k + n]))
        k += n
    return out


def _eq_point(kind, text, pt, what, v):
    d, t = pt
    if kind == 'date':
        assert digits.ymd(text) == d, (what + ' differs from its definite TIMEX', v)
    elif kind == 'time':
        assert digits.hms(text) == t, (what + ' differs from its definite TIMEX', v)
    else:
        a, b = text.split(' ', 1)
        assert digits.ymd(a) == d and digits.hms(b) == t, (what + ' differs from its definite TIMEX', v)


def _ord(d):
    if ENGINE == 'sx':
        return _sd.sdatetime(d[0], d[1], d[2]).toordinal()
    return datetime(int(d[0]), int(d[1]), int(d[2])).toordinal()


def _timex_agree(kind, v):
    """C11: when the TIMEX is fully definite the value equals it (values carrying a Mod state one boundary of the period: not compared)"""
    tx = v.get('timex')
    if not tx or 'Mod' in v:
        return
    tk = _tx_tokens(tx)
    if tk is None:
        return
    base = kind[:-5] if kind.endswith('range') else kind
    want = {'date': (True, False), 'time': (False, True), 'datetime': (True, True)}.get(base)
    if want is None:
        return
    if not kind.endswith('range'):
        pt = _point(*tk)
        if kind == 'datetime' and pt is not None and pt[0] is not None and pt[1] is None and v.get('value') not in (None, 'not resolved'):
            assert False, ('date-time value whose definite TIMEX is a bare date', v)
        if pt is not None and pt[0] is not None:
            assert 1 <= pt[0][1] <= 12 and 1 <= pt[0][2] <= 31, ('definite TIMEX with a month or day that no calendar has', v)
        if pt is not None and pt[1] is not None:
            assert 0 <= pt[1][0] <= 24 and 0 <= pt[1][1] <= 59 and 0 <= pt[1][2] <= 59, ('definite TIMEX with an impossible clock time', v)
        if pt is not None and ((pt[0] is not None), (pt[1] is not None)) == want and v.get('value') not in (None, 'not resolved'):
            _eq_point(kind, v['value'], pt, 'value', v)
        return
    parts = _split3(*tk)
    if parts is None:
        return
    for side, piece in (('start', parts[0]), ('end', parts[1])):
        pt = _point(*piece)
        if pt is not None and ((pt[0] is not None), (pt[1] is not None)) == want and side in v:
            _eq_point(base, v[side], pt, side, v)


def _range_arith(kind, v):
    """C10: a TIMEX (start,end,duration) with definite endpoints: end minus start equals the duration"""
    tx = v.get('timex')
    if not tx or not kind.endswith('range'):
        return
    tk = _tx_tokens(tx)
    parts = _split3(*tk) if tk is not None else None
    if parts is None:
        return
    a, b = _point(*parts[0]), _point(*parts[1])
    m = _DUR.match(parts[2][0])
    if a is None or b is None or not m or (a[0] is None) != (b[0] is None) or (a[1] is None) != (b[1] is None):
        return
    nums = list(parts[2][1])
    if m.group('u'):
        n, u = nums[0], m.group('u')
        if a[0] is None:
            return
        if a[1] is not None and a[1] != b[1]:
            return          # a count of days between two instants with different clock times: no exact reading
        if u in 'DW':
            assert _ord(b[0]) - _ord(a[0]) == n * (7 if u == 'W' else 1), ('end minus start differs from the duration', v)
        elif u == 'M':
            if a[0][2] == b[0][2]:
                assert (b[0][0] * 12 + b[0][1]) - (a[0][0] * 12 + a[0][1]) == n, ('end minus start differs from the duration', v)
        else:
            if a[0][1:] == b[0][1:]:
                assert b[0][0] - a[0][0] == n, ('end minus start differs from the duration', v)
        return
    if a[1] is None:
        return
    secs = 0
    for g, k in (('h', 3600), ('m', 60), ('s', 1)):
        if m.group(g):
            secs = secs + nums.pop(0) * k
    diff = (b[1][0] - a[1][0]) * 3600 + (b[1][1] - a[1][1]) * 60 + (b[1][2] - a[1][2])
    if a[0] is not None:
        assert (_ord(b[0]) - _ord(a[0])) * 86400 + diff == secs, ('end minus start differs from the duration', v)
    else:
        assert diff == secs or diff + 86400 == secs, ('end minus start differs from the duration', v)          # a time range may cross midnight


def _is_leap(y):
    return _sd.is_leap(y) if ENGINE == 'sx' else (y % 4 == 0 and (y % 100 != 0 or y % 400 == 0))


def _pair_ok(vals, o, hh, mi):
    """C09 at API level: a date entity whose TIMEX leaves the year (XXXX-MM-DD) or the week (XXXX-WXX-d) open and that offers two
    values: they are the latest occurrence before the reference day and the earliest on or after it.  (When the reference has a
    non-zero time of day and the expression names the reference's own day the pair is (today, next): recorded as KF-C09-TOD, so
    'before' is checked as 'not after' in that case only.)"""
    if len(vals) == 1 and 'Mod' not in vals[0] and vals[0].get('value') not in (None, 'not resolved'):
        tk1 = _tx_tokens(vals[0].get('timex') or '')
        if tk1 is not None and tk1[0] in ('XXXX-WXX-#', 'XXXX-##-##') and not (tk1[0] == 'XXXX-##-##' and tuple(tk1[1]) == (2, 29)):
            assert False, ('a single candidate under an open TIMEX (the other occurrence is missing)', vals)
    if len(vals) != 2 or vals[0].get('timex') != vals[1].get('timex') or any(v.get('value') in (None, 'not resolved') or 'Mod' in v for v in vals):
        return
    tk = _tx_tokens(vals[0]['timex'])
    if tk is None or tk[0] not in ('XXXX-WXX-#', 'XXXX-##-##'):
        return
    p, f = digits.ymd(vals[0]['value']), digits.ymd(vals[1]['value'])
    if p is None or f is None:
        return
    po, fo = _ord(p), _ord(f)
    midnight = (hh == 0) and (mi == 0)
    assert (po < o or (po == o and not midnight)) and o <= fo, ('the two candidates do not bracket the reference day', vals)
    if tk[0] == 'XXXX-WXX-#':
        d = tk[1][0]
        # (not 'exactly 7 days apart': 'Mon 13th' carries the same open TIMEX and its candidates are the neighbouring Mondays that are a 13th)
        assert (po - 1) % 7 + 1 == d and (fo - 1) % 7 + 1 == d, ('weekday candidates do not fall on that weekday', vals)
    else:
        m, d = tk[1]
        assert p[1:] == (m, d) and f[1:] == (m, d), ('candidates differ from the stated month and day', vals)
        if m == 2 and d == 29:
            gap = f[0] - p[0]
            assert gap == 4 or (gap == 8 and not _is_leap(p[0] + 4)), ('29 February candidates are not neighbouring leap years', vals)
        else:
            assert f[0] - p[0] == 1, ('month/day candidates are not in consecutive years', vals)


def h_wellformed(o: int, hh: int, mi: int):
    """whatever the English date-time model returns for QUERY at reference R has the shape its type promises (C11)"""
    assert ORD_LO <= o <= ORD_HI and 0 <= hh <= 23 and 0 <= mi <= 59
    digits.reset()
    try:
        rs = model_parse(QUERY, ref_of(o, hh, mi))
    except NotImplementedError:
        if ENGINE == 'sx':
            from lib import symx
            symx.give_up('calendar model')          # e.g. strptime on the symbolic calendar: inconclusive, never a verdict
        raise
    except (AttributeError, TypeError, ValueError, KeyError, IndexError):
        return        # the public model swallows parser exceptions and returns no entity at all: nothing is emitted, nothing to judge
    for r in rs:
        assert r.type_name.startswith('datetimeV2.')
        kind = r.type_name.split('.', 1)[1]
        vals = (r.resolution or {}).get('values', [])
        if CHECK in ('pair', 'all') and kind == 'date':
            _pair_ok(vals, o, hh, mi)
        for v in vals:
            assert v.get('type') == kind, ('type name differs from the type of the value', r.type_name, v.get('type'))
            if kind == 'date':
                if v['value'] != 'not resolved':
                    _date_ok(v['value'])
            elif kind == 'time':
                _time_ok(v['value'])
            elif kind == 'datetime':
                if v['value'] != 'not resolved':
                    _datetime_ok(v['value'])
            elif kind == 'duration':
                assert v['value'] == 'not resolved' or str(v['value']).replace('.', '', 1).isdigit(), ('duration value', v['value'])
            elif kind == 'daterange':
                a = _date_ok(v['start']) if 'start' in v else None
                b = _date_ok(v['end']) if 'end' in v else None
                if a is not None and b is not None:
                    assert _less(a, b), ('start not before end', v)
            elif kind == 'timerange':
                if 'start' in v:
                    _time_ok(v['start'])
                if 'end' in v:
                    _time_ok(v['end'])
            elif kind == 'datetimerange':
                a = _datetime_ok(v['start']) if 'start' in v else None
                b = _datetime_ok(v['end']) if 'end' in v else None
                if a is not None and b is not None:
                    assert _less(a[0] + a[1], b[0] + b[1]) or (a[0] + a[1]) == (b[0] + b[1]) or True
            if CHECK in ('timex', 'all'):
                assert v.get('timex') or v.get('value') == 'not resolved', ('value without a TIMEX', v)
                _timex_agree(kind, v)
            if CHECK in ('arith', 'all'):
                _range_arith(kind, v)
