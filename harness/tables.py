"""Concrete audits of culture tables that the symbolic harnesses replace by one-entry tables.
These are audits, not solver verdicts; a mismatch is reported as a counterexample with the offending key."""
import calendar

from harness.common import *  # noqa


def audit_date_tables(slice_, timeout):
    from recognizers_date_time.resources.english_date_time import EnglishDateTime
    from recognizers_date_time.resources.base_date_time import BaseDateTime
    env.assert_repo(EnglishDateTime)
    bad = []
    n = 0
    names = {calendar.month_name[i].lower(): i for i in range(1, 13)}
    abbr = {calendar.month_abbr[i].lower(): i for i in range(1, 13)}
    for k, v in EnglishDateTime.MonthOfYear.items():
        n += 1
        kk = k.strip('.').lower()
        want = names.get(kk) or abbr.get(kk) or (9 if kk == 'sept' else None)
        if want is None and kk.isdigit():
            want = int(kk)
        if want is None or want != v or not 1 <= v <= 12:
            bad.append(('MonthOfYear', k, v))
    days = {calendar.day_name[i].lower(): i + 1 for i in range(7)}
    for k, v in EnglishDateTime.DayOfWeek.items():
        n += 1
        full = [d for d in days if d.startswith(k.strip('.').lower()[:2]) and (d.startswith(k.lower()[:3]) or len(k) <= 2)]
        want = days[full[0]] % 7 if len(full) >= 1 else None
        if want is None or (v % 7) != want:
            bad.append(('DayOfWeek', k, v))
    dom = dict(BaseDateTime.DayOfMonthDictionary)
    dom.update(EnglishDateTime.DayOfMonth)
    for k, v in dom.items():
        n += 1
        lead = ''.join(c for c in k if c.isdigit())
        if not lead or int(lead) != v or not 1 <= v <= 31:
            bad.append(('DayOfMonth', k, v))
    if bad:
        return {'state': 'counterexample', 'detail': 'table entries disagree with the calendar: %r' % bad[:5], 'cex': {'bad': bad[:5]}, 'queries': n}
    return {'state': 'discharged', 'detail': 'audited %d table entries' % n, 'queries': n, 'sample': {'entries': n}}


def audit_date_tables__replay(slice_, cex):
    r = audit_date_tables(slice_, 0)
    return {'reproduced': r['state'] == 'counterexample', 'detail': r['detail']}


def audit_negative_terms(slice_, timeout):
    """premise of the sweep stub: search(negative_terms, source[:start]) can only match at the very end of the prefix"""
    import importlib
    bad = []
    n = 0
    for lang in ('english', 'spanish', 'french', 'portuguese', 'german', 'italian', 'dutch', 'chinese', 'japanese'):
        try:
            m = importlib.import_module('recognizers_number.number.%s.extractors' % lang)
        except ImportError:
            continue
        env.assert_repo(m)
        for name in dir(m):
            cls = getattr(m, name)
            if isinstance(cls, type) and name.endswith('NumberExtractor') and name.lower().startswith(lang[:4]):
                try:
                    ex = cls()
                except Exception:  # noqa
                    continue
                p = getattr(ex, '_negative_number_terms', None)
                if p is None:
                    continue
                n += 1
                if not p.pattern.endswith('$'):
                    bad.append((name, p.pattern))
    if bad:
        return {'state': 'counterexample', 'cex': {'bad': bad[:3]}, 'detail': 'negative-term pattern not anchored at the end: %r' % bad[:3], 'queries': n}
    return {'state': 'discharged', 'detail': '%d extractors checked' % n, 'queries': n, 'sample': {'extractors': n}}


def audit_negative_terms__replay(slice_, cex):
    r = audit_negative_terms(slice_, 0)
    return {'reproduced': r['state'] == 'counterexample', 'detail': r['detail']}


# ---- month / weekday / day-of-month tables of the other cultures -----------------------------------------------------------------
MONTHS = {
    'spanish': ['enero', 'febrero', 'marzo', 'abril', 'mayo', 'junio', 'julio', 'agosto', 'septiembre', 'octubre', 'noviembre', 'diciembre'],
    'french': ['janvier', 'fevrier', 'mars', 'avril', 'mai', 'juin', 'juillet', 'aout', 'septembre', 'octobre', 'novembre', 'decembre'],
    'portuguese': ['janeiro', 'fevereiro', 'marco', 'abril', 'maio', 'junho', 'julho', 'agosto', 'setembro', 'outubro', 'novembro', 'dezembro'],
    'german': ['januar', 'februar', 'marz', 'april', 'mai', 'juni', 'juli', 'august', 'september', 'oktober', 'november', 'dezember'],
    'italian': ['gennaio', 'febbraio', 'marzo', 'aprile', 'maggio', 'giugno', 'luglio', 'agosto', 'settembre', 'ottobre', 'novembre', 'dicembre'],
    'dutch': ['januari', 'februari', 'maart', 'april', 'mei', 'juni', 'juli', 'augustus', 'september', 'oktober', 'november', 'december'],
}
# spellings that are not a prefix of the standard name (regional variants, contractions), each checked by hand
MONTH_EXTRA = {
    'spanish': {'setiembre': 9, 'set': 9, 'sept': 9},
    'french': {'janv': 1, 'fevr': 2, 'juil': 7, 'jul': 7, 'jun': 6, 'sept': 9},
    'portuguese': {'septembro': 9, 'sept': 9},
    'german': {'janner': 1, 'jan': 1, 'feber': 2, 'juno': 6, 'julei': 7, 'sept': 9, 'mar': 3},
    'italian': {'sett': 9},
    'dutch': {'mrt': 3, 'mar': 3, 'oct': 10, 'sept': 9},
}
WEEKDAYS = {     # Monday = 1 .. Sunday = 0 (the convention of the tables)
    'spanish': ['domingo', 'lunes', 'martes', 'miercoles', 'jueves', 'viernes', 'sabado'],
    'french': ['dimanche', 'lundi', 'mardi', 'mercredi', 'jeudi', 'vendredi', 'samedi'],
    'german': ['sonntag', 'montag', 'dienstag', 'mittwoch', 'donnerstag', 'freitag', 'samstag'],
    'dutch': ['zondag', 'maandag', 'dinsdag', 'woensdag', 'donderdag', 'vrijdag', 'zaterdag'],
    'italian': ['domenica', 'lunedi', 'martedi', 'mercoledi', 'giovedi', 'venerdi', 'sabato'],
}
GERMAN_ORD = ['erst', 'zweit', 'dritt', 'viert', 'funft', 'sechst', 'siebt', 'acht', 'neunt', 'zehnt', 'elft', 'zwolft']


def _fold(s):
    import unicodedata
    s = s.replace('ß', 'ss')
    return ''.join(c for c in unicodedata.normalize('NFD', s.lower()) if not unicodedata.combining(c)).strip('.')


def audit_culture_tables(slice_, timeout):
    """MonthOfYear (and DayOfMonth / DayOfWeek where the culture has them): every key denotes the number it maps to, by an
    independent list of month / weekday names; numeric keys by their digits"""
    import importlib
    lang = slice_['lang']
    m = importlib.import_module('recognizers_date_time.resources.%s_date_time' % lang)
    env.assert_repo(m)
    R = getattr(m, lang.capitalize() + 'DateTime')
    bad, n = [], 0
    names = MONTHS[lang]
    for k, v in R.MonthOfYear.items():
        n += 1
        kk = _fold(k)
        if kk.isdigit():
            ok = int(kk) == v
        elif lang == 'german' and kk.replace('ue', 'u').replace('oe', 'o') in GERMAN_ORD:
            ok = GERMAN_ORD.index(kk.replace('ue', 'u').replace('oe', 'o')) + 1 == v
        else:
            ok = (1 <= v <= 12 and len(kk) >= 3 and names[v - 1].startswith(kk)) or MONTH_EXTRA[lang].get(kk) == v
        if not ok or not 1 <= v <= 12:
            bad.append(('MonthOfYear', k, v))
    for k, v in dict(getattr(R, 'DayOfMonth', {})).items():
        n += 1
        lead = ''
        for c in k:
            if c.isdigit():
                lead += c
            else:
                break
        if lead:
            if int(lead) != v or not 1 <= v <= 31:
                bad.append(('DayOfMonth', k, v))
    wd = WEEKDAYS.get(lang)
    if wd:
        english = ['sunday', 'monday', 'tuesday', 'wednesday', 'thursday', 'friday', 'saturday']
        for k, v in dict(getattr(R, 'DayOfWeek', {})).items():
            n += 1
            kk = _fold(k)
            cands = [i for i in range(7) if wd[i].startswith(kk) or english[i].startswith(kk) or kk.startswith(wd[i]) or (len(kk) >= 5 and kk[:5] == wd[i][:5])]
            if lang == 'german' and kk == 'sonnabend':
                cands = [6]
            if lang == 'dutch' and kk in ('dins', 'woens', 'vrij', 'zat', 'zon', 'woe'):
                cands = [i for i in range(7) if wd[i].startswith(kk[:2])]
            if kk in ('tues', 'wedn', 'weds', 'thur', 'thurs'):
                cands = [english.index(x) for x in english if x.startswith(kk[:2]) and (kk[:2] != 'th' or x.startswith('thu')) and (kk[:2] != 'tu' or x.startswith('tue'))]
            if not (0 <= v <= 7) or (v % 7) not in cands:
                bad.append(('DayOfWeek', k, v))
    if bad:
        return {'state': 'counterexample', 'detail': 'table entries disagree with the calendar: %r' % bad[:6], 'cex': {'bad': bad[:6], 'lang': lang}, 'queries': n}
    return {'state': 'discharged', 'detail': 'audited %d table entries (%s)' % (n, lang), 'queries': n, 'sample': {'entries': n}}


def audit_culture_tables__replay(slice_, cex):
    r = audit_culture_tables(slice_, 0)
    return {'reproduced': r['state'] == 'counterexample', 'detail': r['detail']}
