"""Concrete audits of culture tables that the symbolic harnesses replace by one-entry tables.
These are audits, not solver verdicts; a mismatch is reported as a counterexample with the offending key."""
import calendar

from harness.common import *  # noqa


def audit_date_tables(slice_, timeout):
    from recognizers_date_time.resources.english_date_time import EnglishDateTime
    from recognizers_date_time.resources.base_date_time import BaseDateTime
    env.assert_repo(EnglishDateTime)
    bad = []
    n = 0
    names = {calendar.month_name[i].lower(): i for i in range(1, 13)}
    abbr = {calendar.month_abbr[i].lower(): i for i in range(1, 13)}
    for k, v in EnglishDateTime.MonthOfYear.items():
        n += 1
        kk = k.strip('.').lower()
        want = names.get(kk) or abbr.get(kk) or (9 if kk == 'sept' else None)
        if want is None and kk.isdigit():
            want = int(kk)
        if want is None or want != v or not 1 <= v <= 12:
            bad.append(('MonthOfYear', k, v))
    days = {calendar.day_name[i].lower(): i + 1 for i in range(7)}
    for k, v in EnglishDateTime.DayOfWeek.items():
        n += 1
        full = [d for d in days if d.startswith(k.strip('.').lower()[:2]) and (d.startswith(k.lower()[:3]) or len(k) <= 2)]
        want = days[full[0]] % 7 if len(full) >= 1 else None
        if want is None or (v % 7) != want:
            bad.append(('DayOfWeek', k, v))
    dom = dict(BaseDateTime.DayOfMonthDictionary)
    dom.update(EnglishDateTime.DayOfMonth)
    for k, v in dom.items():
        n += 1
        lead = ''.join(c for c in k if c.isdigit())
        if not lead or int(lead) != v or not 1 <= v <= 31:
            bad.append(('DayOfMonth', k, v))
    if bad:
        return {'state': 'counterexample', 'detail': 'table entries disagree with the calendar: %r' % bad[:5], 'cex': {'bad': bad[:5]}, 'queries': n}
    return {'state': 'discharged', 'detail': 'audited %d table entries' % n, 'queries': n, 'sample': {'entries': n}}


def audit_date_tables__replay(slice_, cex):
    r = audit_date_tables(slice_, 0)
    return {'reproduced': r['state'] == 'counterexample', 'detail': r['detail']}


def audit_negative_terms(slice_, timeout):
    """premise of the sweep stub: search(negative_terms, source[:start]) can only match at the very end of the prefix"""
    import importlib
    bad = []
    n = 0
    for lang in ('english', 'spanish', 'french', 'portuguese', 'german', 'italian', 'dutch', 'chinese', 'japanese'):
        try:
            m = importlib.import_module('recognizers_number.number.%s.extractors' % lang)
        except ImportError:
            continue
        env.assert_repo(m)
        for name in dir(m):
            cls = getattr(m, name)
            if isinstance(cls, type) and name.endswith('NumberExtractor') and name.lower().startswith(lang[:4]):
                try:
                    ex = cls()
                except Exception:  # noqa
                    continue
                p = getattr(ex, '_negative_number_terms', None)
                if p is None:
                    continue
                n += 1
                if not p.pattern.endswith('$'):
                    bad.append((name, p.pattern))
    if bad:
        return {'state': 'counterexample', 'cex': {'bad': bad[:3]}, 'detail': 'negative-term pattern not anchored at the end: %r' % bad[:3], 'queries': n}
    return {'state': 'discharged', 'detail': '%d extractors checked' % n, 'queries': n, 'sample': {'extractors': n}}


def audit_negative_terms__replay(slice_, cex):
    r = audit_negative_terms(slice_, 0)
    return {'reproduced': r['state'] == 'counterexample', 'detail': r['detail']}
