"""C17 -- culture routing and model caching.  Culture codes are built by indexing concrete tables with symbolic ints
(language, separator, region, per-letter case), so symx enumerates the index space through the solver and the real
code runs natively on each resulting code string; model constructors are replaced by tagged sentinels."""
from harness.common import *  # noqa
from recognizers_text import Culture
from recognizers_text.model import ModelFactory
from recognizers_text.recognizer import Recognizer

env.assert_repo(Culture, ModelFactory, Recognizer)

SUPPORTED = ['en-us', 'en-*', 'nl-nl', 'zh-cn', 'fr-fr', 'it-it', 'ja-jp', 'ko-kr', 'pt-br', 'es-es', 'es-mx', 'tr-tr', 'de-de']
LANGS = sorted({c.split('-')[0] for c in SUPPORTED}) + ['xx', 'sw', 'eng', 'qqq']          # supported languages + unknown ones
REGIONS = (sorted({c.split('-')[1] for c in SUPPORTED if '*' not in c}) if sl('allreg') else ['us', 'mx', 'es', 'br', 'cn']) + ['zz', 'gb', '419']
CASES = list(range(32)) if sl('allcase') else [0, 31, 1, 21]
SEPS = ['-']
RECOG = sl('rec', 'number')


def expected_culture(code):
    """the relation of the property statement, written independently of the implementation"""
    if not code:
        return None
    low = code.lower()
    if low in SUPPORTED:
        return low
    lang = low.split('-')[0]
    same = [c for c in SUPPORTED if c.split('-')[0] == lang]
    if len(same) == 1:
        return same[0]
    star = [c for c in same if c.endswith('*')]
    if star:
        return star[0]
    return low            # no unique culture for that language: left as is (-> fallback / ValueError downstream)


def build_code(li, ri, with_region, case_bits):
    code = LANGS[li]
    if with_region:
        code += '-' + REGIONS[ri]
    out = ''
    k = 0
    for ch in code:
        if ch.isalpha():
            out += ch.upper() if (case_bits >> k) & 1 else ch
            k += 1
        else:
            out += ch
    return out


def h_map(li: int, ri: int, with_region: bool, case_bits: int):
    assert li == sl('li', 0) and 0 <= ri < len(REGIONS) and 0 <= case_bits < len(CASES)
    code = build_code(int(li), int(ri), bool(with_region), CASES[int(case_bits)])
    assert Culture.map_to_nearest_language(code) == expected_culture(code), code


def h_map_degenerate(k: int):
    assert 0 <= k <= 1
    code = [None, ''][int(k)]
    assert Culture.map_to_nearest_language(code) is None
    assert sorted(Culture._get_supported_culture_codes()) == sorted(SUPPORTED)


def t_map(li: int, ri: int, with_region: bool, case_bits: int):
    assert li == sl('li', 0) and 0 <= ri < len(REGIONS) and 0 <= case_bits < len(CASES)
    code = build_code(int(li), int(ri), bool(with_region), CASES[int(case_bits)])
    assert Culture.map_to_nearest_language(code) == code


# ---- recogniser routing with the real registration tables ------------------------------------------------------
class Sentinel:
    def __init__(self, key, options):
        self.key, self.options = key, options


def make_recognizer():
    if RECOG == 'number':
        from recognizers_number import NumberRecognizer as R
    elif RECOG == 'unit':
        from recognizers_number_with_unit import NumberWithUnitRecognizer as R
    elif RECOG == 'datetime':
        from recognizers_date_time import DateTimeRecognizer as R
    elif RECOG == 'sequence':
        from recognizers_sequence import SequenceRecognizer as R
    else:
        from recognizers_choice import ChoiceRecognizer as R
    env.assert_repo(R)
    rec = R(lazy_initialization=False)
    for key in list(rec.model_factory.model_factories):
        rec.model_factory.model_factories[key] = (lambda options, key=key: Sentinel(tuple(key), options))
    return rec


REC = make_recognizer()
TYPES = sorted({k.model_type for k in REC.model_factory.model_factories})
CACHE = ModelFactory._ModelFactory__cache


def h_route(ti: int, li: int, ri: int, with_region: bool, upper: bool, fallback: bool):
    assert ti == sl('ti', 0) and 0 <= li < len(LANGS) and 0 <= ri < len(REGIONS)
    CACHE.clear()
    mtype = TYPES[int(ti)]
    code = build_code(int(li), int(ri), bool(with_region), 31 if upper else 0)
    want_culture = expected_culture(code)
    registered = {tuple(k) for k in REC.model_factory.model_factories}
    if (mtype, want_culture) in registered:
        want = (mtype, want_culture)
    elif fallback and (mtype, 'en-us') in registered:
        want = (mtype, 'en-us')
    else:
        want = None
    try:
        got = REC.get_model(mtype, code, bool(fallback))
    except ValueError:
        got = None
    if want is None:
        assert got is None, (mtype, code)
    else:
        assert got is not None and got.key == want, (mtype, code, want, got and got.key)
        # a second identical request is served from the cache with the same object
        assert REC.get_model(mtype, code, bool(fallback)) is got


def t_route(ti: int, li: int, ri: int, with_region: bool, upper: bool, fallback: bool):
    assert ti == sl('ti', 0) and 0 <= li < len(LANGS) and 0 <= ri < len(REGIONS)
    CACHE.clear()
    got = REC.get_model(TYPES[int(ti)], build_code(int(li), int(ri), bool(with_region), 0), True)
    assert got is None


# ---- cache step: arbitrary valid cache state + one request (covers request histories of any length) -------------
P_TYPES = ['TA', 'TB']
P_CULT = ['en-us', 'fr-fr', 'zz-zz']
P_OPT = [0, 1]


def _key(i):
    i = int(i)
    return P_TYPES[i % 2], P_CULT[(i // 2) % 3], P_OPT[(i // 6) % 2]


def h_cache_step(c1: int, c2: int, has1: bool, has2: bool, req: int, fallback: bool):
    assert 0 <= c1 < 12 and c1 <= c2 < 12 and req == sl('req', 0)
    CACHE.clear()
    f = ModelFactory()
    reg = {('TA', 'en-us'), ('TA', 'fr-fr'), ('TB', 'en-us')}            # TB has no French model, nothing for zz-zz
    for (t, c) in reg:
        f.register_model(t, c, (lambda options, t=t, c=c: Sentinel((t, c), options)))
    # pre-state: any cache in which each entry is what its own key's constructor would have built (the invariant)
    pre = {}
    for has, ci in ((has1, c1), (has2, c2)):
        if has:
            t, c, o = _key(ci)
            if (t, c) in reg:
                pre[(t, c, o)] = Sentinel((t, c), o)
    for (t, c, o), m in pre.items():
        f.register_model_in_cache(t, c, o, m)
    t, c, o = _key(req)
    try:
        got = f.get_model(t, c, bool(fallback), o)
    except ValueError:
        got = None
    if (t, c) in reg:
        want = (t, c)
    elif fallback and (t, 'en-us') in reg:
        want = (t, 'en-us')
    else:
        want = None
    if want is None:
        assert got is None
    else:
        assert got is not None and got.key == want and got.options == o       # never a model cached under another key
        if (want[0], want[1], o) in pre:
            assert got is pre[(want[0], want[1], o)]
    # the invariant still holds afterwards
    for k, m in CACHE.items():
        assert m.key == (k.model_type, k.culture) and m.options == k.options
    # registering the same (type, culture) twice is refused
    try:
        f.register_model('TA', 'en-us', lambda options: None)
        dup = False
    except ValueError:
        dup = True
    assert dup


# ---- option range validation -------------------------------------------------------------------------------------
def h_options(opt: int):
    assert -3 <= opt <= 40
    from recognizers_number import NumberRecognizer
    from recognizers_number_with_unit import NumberWithUnitRecognizer
    from recognizers_sequence import SequenceRecognizer
    from recognizers_date_time import DateTimeRecognizer
    from recognizers_date_time.date_time.utilities import DateTimeOptions
    opt = int(opt)
    for R, hi in ((NumberRecognizer, 0), (NumberWithUnitRecognizer, 0), (SequenceRecognizer, 0), (DateTimeRecognizer, int(DateTimeOptions.CALENDAR))):
        try:
            R('en-us', opt, False)
            ok = True
        except ValueError:
            ok = False
        assert ok == (0 <= opt <= hi), (R.__name__, opt)
