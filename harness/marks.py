"""Marker stubs for number->string formatting.

z3's string theory does not cope with str.from_int on large or many symbolic ints (probe: a single
`int(str(86400*n)) == 86400*n`, n <= 5000, is not confirmed in 60 s).  Formatting helpers of the
code under test (`fixed_format_number(n, size)`, `str(n)`, '{:02d}'.format(n)) are therefore
replaced -- in the harness only, by patching the module global of the module under test -- by a
stub that returns a *placeholder* of private-use characters and records the (possibly symbolic)
integer it stands for.  The string the real code assembles around the placeholders stays concrete,
`decode` turns it back into literal pieces and recorded integers, and the property is asserted on
those integers.  The real formatting helper itself is checked by its own obligation (digits of n,
width, zero padding) so the composition covers the claim.

Placeholder for the k-th formatted number of width w: chr(0xE000 + k) repeated max(w, 1) times
(variable-width `str(n)` uses one character of the block 0xE800+k).
"""

REG = []


def reset():
    del REG[:]


def fixed(n, size):
    """stub for zero-padded fixed-width rendering of n"""
    k = len(REG)
    REG.append((n, size))
    return chr(0xE000 + k) * max(size, 1)


def free(n):
    """stub for str(n) of an int (variable width)"""
    if isinstance(n, str):
        return n
    k = len(REG)
    REG.append((n, 0))
    return chr(0xE800 + k)


def decode(s):
    """-> list of items: str literal pieces and (value, width) tuples"""
    out = []
    i = 0
    lit = ''
    while i < len(s):
        c = ord(s[i])
        if 0xE000 <= c < 0xE800:
            k = c - 0xE000
            j = i
            while j < len(s) and s[j] == s[i]:
                j += 1
            n, size = REG[k]
            if lit:
                out.append(lit)
                lit = ''
            out.append((n, j - i))
            i = j
        elif 0xE800 <= c < 0xF000:
            n, _ = REG[c - 0xE800]
            if lit:
                out.append(lit)
                lit = ''
            out.append((n, 0))
            i += 1
        else:
            lit += s[i]
            i += 1
    if lit:
        out.append(lit)
    return out


def fields(s, template):
    """Match decoded `s` against a template like ['Y4', '-', 'N2', '-', 'N2'] where 'Nw' is a
    number field of width w (w=0: free width) and anything else a literal.  Returns the list of
    recorded integers, or None when the shape differs.  Width-w fields additionally require
    0 <= n < 10**w (so that the real renderer prints exactly w digits)."""
    items = decode(s)
    if len(items) != len(template):
        return None
    vals = []
    for it, t in zip(items, template):
        if isinstance(t, str) and len(t) == 2 and t[0] == 'N' and t[1].isdigit():
            if not isinstance(it, tuple) or it[1] != int(t[1]):
                return None
            vals.append(it[0])
        else:
            if it != t:
                return None
    return vals


def ymd(s):
    """'YYYY-MM-DD' assembled from three fixed-width number fields -> (y, m, d) or None"""
    v = fields(s, ['N4', '-', 'N2', '-', 'N2'])
    if v is None:
        return None
    y, m, d = v
    if not (0 <= y <= 9999 and 0 <= m <= 99 and 0 <= d <= 99):
        return None
    return y, m, d
