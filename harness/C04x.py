"""C04 for the other cultures (cardinals): the real BaseNumberParser.__get_int_value with the culture's real configuration on token
*shapes*.  The shapes are obtained from independent spellers (harness/spell.py): a number is spelled, tokenised by the real
text_number_regex, and every number token is abstracted to its kind (unit 1..9, word 10..19 / 10..29, tens, hundreds word); round words
and connectors stay literal.  One symbolic run of a shape decides every number of that shape: the kernel must return what an
independent positional evaluator gives for the same tokens."""
import importlib
import sys

from harness.common import *  # noqa
from harness import symdec, spell
from lib.symx import assume
from recognizers_number.number.parsers import BaseNumberParser
from recognizers_number.culture import CultureInfo

PARSERS = sys.modules['recognizers_number.number.parsers']
ENGINE = os.environ.get('VERIF_ENGINE', 'native')
LANG = sl('lang', 'french')
SPELL, CULTURE, LIMIT = spell.SPELLERS[LANG]
_m = importlib.import_module('recognizers_number.number.%s.parsers' % LANG)
_cls = [getattr(_m, n) for n in dir(_m) if n.endswith('NumberParserConfiguration') and n.lower().startswith(LANG[:4])][0]
env.assert_repo(PARSERS, _m)
PARSER = BaseNumberParser(_cls(CultureInfo(CULTURE)))
REAL_CARD = dict(PARSER.config.cardinal_number_map)
ROUND = dict(PARSER.config.round_number_map)
PARSER.config._cardinal_number_map = dict(REAL_CARD)
GET_INT = PARSER._BaseNumberParser__get_int_value
if ENGINE == 'sx':
    PARSERS.Decimal = symdec.SymDec
WMAX = 29 if LANG == 'spanish' else 19
KIND_RANGE = {'u': (1, 9), 'w': (10, WMAX), 'd': (2, 9), 'c': (1, 9)}


# number words the tokeniser keeps whole although they are not map entries (resolved by resolve_composite_number); values by hand
COMPOSITE = {'french': {'quatre-vingt-onze': 91, 'quatre-vingt-douze': 92, 'quatre-vingt-treize': 93, 'quatre-vingt-quatorze': 94, 'quatre-vingt-quinze': 95,
                        'quatre-vingt-seize': 96}}.get(LANG, {})


def tokens_of(text):
    import regex
    return [m.group().lower() for m in regex.finditer(PARSER.text_number_regex, text)]


def abstract(tokens):
    """token list -> shape: 'u' | 'w' | 'd' | 'c' for number words by their value, ['R', word] for round words, ['L', word] for anything else"""
    shape = []
    for t in tokens:
        if t in ROUND and ROUND[t] >= 100:
            shape.append(['R', t])
            continue
        v = REAL_CARD.get(t)
        if t in COMPOSITE:
            shape.append(['N', t])
        elif v is None:
            shape.append(['L', t])
        elif 1 <= v <= 9:
            shape.append('u')
        elif 10 <= v <= WMAX:
            shape.append('w')
        elif 20 <= v <= 90 and v % 10 == 0:
            shape.append('d')
        elif 100 <= v <= 900 and v % 100 == 0:
            shape.append('c')
        else:
            shape.append(['L', t])
    return shape


# spellings the extraction patterns of the culture do not cover (recorded findings, identified by the spelling)
KNOWN = {'french': ('F27', lambda t: 'cents' in t.split() or t.startswith('un million') or ('million' in t.split(' cent mille')[0] and ' cent mille' in t)),
         'italian': ('F28', lambda t: 'tré' in t),
         'portuguese': ('F29', lambda t: 'catorze' in t),
         'spanish': ('F26', lambda t: t.startswith('mil ') and 'millones' in t)}


def shapes_for(lang_limit=None, k=400):
    """distinct shapes of the standard spellings of the sample numbers (deterministic)"""
    seen, out = set(), []
    for n in spell.sample_numbers(lang_limit or LIMIT, k):
        if n == 0:
            continue
        text = SPELL(n)
        if LANG in KNOWN and KNOWN[LANG][1](text):
            continue                                   # spellings of a recorded finding are not part of the verified set
        sh = abstract(tokens_of(text))
        key = json.dumps(sh)
        if key not in seen:
            seen.add(key)
            out.append(sh)
    return out


def evaluate(items):
    """independent positional semantics: items = numbers and ('R', value) round words, in order.  The largest round word splits the list:
    (value of the left part, or 1 if there is none) x round + value of the right part; without round words the numbers add up"""
    rounds = [(it[1], i) for i, it in enumerate(items) if isinstance(it, tuple)]
    if not rounds:
        tot = 0
        for it in items:
            tot = tot + it
        return tot
    big = max(r[0] for r in rounds)
    i = [r[1] for r in rounds if r[0] == big][0]
    left, right = items[:i], items[i + 1:]
    lv = evaluate(left) if left else 1
    return lv * big + evaluate(right)


SHAPES = sl('shapes', None)
KSAMPLE = sl('k', 400)
ALL_SHAPES = SHAPES if SHAPES is not None else shapes_for(None, KSAMPLE)
PART, NPARTS = sl('part', 0), sl('nparts', 1)
SHAPES = ALL_SHAPES[PART::NPARTS]


def instantiate(shape, vals):
    toks, items, vi = [], [], 0
    cm = PARSER.config._cardinal_number_map
    k = 0
    for s in shape:
        if isinstance(s, list):
            toks.append(s[1])
            if s[0] == 'R':
                items.append(('R', ROUND[s[1]]))
            elif s[0] == 'N':
                items.append(COMPOSITE[s[1]])
            continue
        v = vals[vi]
        vi += 1
        lo, hi = KIND_RANGE[s]
        assume(lo <= v and v <= hi)
        val = v * 10 if s == 'd' else (v * 100 if s == 'c' else v)
        key = '«n%d»' % k
        k += 1
        cm[key] = val
        toks.append(key)
        items.append(val)
    return toks, evaluate(items), vi


def h_int_value(si: int, v0: int, v1: int, v2: int, v3: int, v4: int, v5: int, v6: int, v7: int, v8: int, v9: int, v10: int, v11: int, v12: int, v13: int, v14: int):
    assume(0 <= si < len(SHAPES))
    shape = SHAPES[int(si)]
    vals = [v0, v1, v2, v3, v4, v5, v6, v7, v8, v9, v10, v11, v12, v13, v14]
    toks, want, used = instantiate(shape, vals)
    assume(all(v == 0 for v in vals[used:]))
    got = GET_INT(toks)
    if ENGINE == 'sx':
        assert isinstance(got, symdec.SymDec) and got.exp == 0
        assert got.num == want, (shape,)
    else:
        assert int(got) == want, (shape, toks, got, want)


def t_int_value(si: int, v0: int, v1: int, v2: int, v3: int, v4: int, v5: int, v6: int, v7: int, v8: int, v9: int, v10: int, v11: int, v12: int, v13: int, v14: int):
    assume(0 <= si < len(SHAPES))
    shape = SHAPES[int(si)]
    vals = [v0, v1, v2, v3, v4, v5, v6, v7, v8, v9, v10, v11, v12, v13, v14]
    toks, want, used = instantiate(shape, vals)
    assume(all(v == 0 for v in vals[used:]))
    got = GET_INT(toks)
    assert (got.num if ENGINE == 'sx' else int(got)) == 0


def validate(slice_, timeout):
    """composition check (not a verdict): every sample number, spelled independently, comes back from recognize_number as one entity
    with that value; its token shape is one of the shapes the symbolic obligation covers; the independent evaluator agrees with n"""
    from recognizers_number import recognize_number
    kf = bool(slice_.get('kf'))
    known = KNOWN.get(LANG)
    keys = set(json.dumps(s) for s in ALL_SHAPES)
    n_ok = 0
    for n in spell.sample_numbers(LIMIT, KSAMPLE):
        if n == 0:
            continue
        text = SPELL(n)
        in_known = bool(known and known[1](text))
        if in_known != kf:
            continue
        toks = tokens_of(text)
        sh = abstract(toks)
        if not kf and json.dumps(sh) not in keys:
            return {'state': 'counterexample', 'cex': {'n': n, 'text': text}, 'detail': 'shape of %r is not in the verified set' % text, 'queries': n_ok}
        items = []
        for t in toks:
            if t in ROUND and ROUND[t] >= 100:
                items.append(('R', ROUND[t]))
            elif t in COMPOSITE:
                items.append(COMPOSITE[t])
            elif t in REAL_CARD:
                items.append(REAL_CARD[t])
        if not kf and evaluate(items) != n:
            return {'state': 'counterexample', 'cex': {'n': n, 'text': text}, 'detail': 'oracle evaluator gives %r for %r (tokens %r)' % (evaluate(items), text, toks), 'queries': n_ok}
        rs = recognize_number(text, CULTURE)
        if not (len(rs) == 1 and rs[0].text == text and rs[0].resolution['value'] == str(n)):
            return {'state': 'counterexample', 'cex': {'n': n, 'text': text},
                    'detail': 'recognize_number(%r, %s) -> %r, expected %d' % (text, CULTURE, [(r.text, r.resolution['value']) for r in rs], n), 'queries': n_ok}
        n_ok += 1
    if kf:
        return {'state': 'discharged', 'detail': 'no sample number in the known region fails any more (%d checked)' % n_ok, 'queries': n_ok}
    return {'state': 'discharged', 'detail': '%d sample numbers recognised with their value; %d shapes' % (n_ok, len(ALL_SHAPES)), 'queries': n_ok, 'sample': {'shapes': len(ALL_SHAPES)}}


def validate__replay(slice_, cex):
    from recognizers_number import recognize_number
    text, n = cex['text'], cex['n']
    rs = recognize_number(text, CULTURE)
    ok = len(rs) == 1 and rs[0].text == text and rs[0].resolution['value'] == str(n)
    return {'reproduced': not ok, 'detail': 'recognize_number(%r, %s) -> %r, expected %d' % (text, CULTURE, [(r.text, r.resolution['value']) for r in rs], n)}
