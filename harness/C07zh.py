"""C07 -- Chinese clock times: the real ChineseTimeParser (handle_digit / handle_chinese -> pack_time_result ->
TimeResolutionUtils.add_description / match_to_value) executed by symx on symbolic hour, minute, second.

The extractor's patterns spell hours as literal alternatives (00|01|...|24), so they are not digit independent: the groups the
parser reads are taken from a *real* match of the real ChineseTimeExtractor on a concrete template ('<desc>5:07:09',
'<desc>5点7分9秒', ...), and the hour / minute / second captures are then replaced by digit placeholders standing for symbolic
values.  Which spellings the patterns accept, and that they decompose into these groups, is validated separately through the public
API on every hour 0..24 x day-part word (api_hours: small-scope enumeration, labelled so).

Oracle (independent of the code's comparison): with a day-part word whose window starts at hour b (TimeLowBoundDesc), the result is
the hour e with e = h (mod 12) and b <= e < b + 12; without such a word the hour is h itself.  TIMEX = T<e>[:mm[:ss]], value hour
e mod 24."""
import sys

from harness.dtcommon import *  # noqa
from recognizers_date_time.date_time.chinese.time_parser import ChineseTimeParser
from recognizers_date_time.date_time.chinese.time_extractor import ChineseTimeExtractor
from recognizers_date_time.resources.chinese_date_time import ChineseDateTime

_ZB = sys.modules[DT + 'chinese.base_date_time_extractor']
_ZT = sys.modules[DT + 'chinese.time_parser']
env.assert_repo(_ZB, _ZT)
_ZB.int = digits.unint
if ENGINE == 'sx':
    for _m in (_ZB, _ZT):
        for _n, _v in (('datetime', symdate.sdatetime), ('timedelta', symdate.stimedelta)):
            if hasattr(_m, _n):
                setattr(_m, _n, _v)

DESC = sl('desc', '')
FORM = sl('form', 'digit')          # digit 'H:MM:SS' | cjk 'H点M分S秒' | hour 'H点' | half 'H点半' | quarter 'H点一刻' | quarter3 'H点三刻'
TEMPLATE = {'digit': '5:07:09', 'cjk': '5点7分9秒', 'hour': '5点', 'half': '5点半', 'quarter': '5点一刻', 'quarter3': '5点三刻'}
ZP = ChineseTimeParser()
ZX = ChineseTimeExtractor()
LOW = dict(ChineseDateTime.TimeLowBoundDesc)


def _extra():
    """the DateTimeExtra of a real match of the real extractor on the concrete template of this slice"""
    text = DESC + TEMPLATE[FORM]
    ers = ZX.extract(text, datetime(2016, 11, 7))
    assert len(ers) == 1 and ers[0].start == 0 and ers[0].length == len(text), ('template not extracted as one time', text, [(e.text) for e in ers])
    return ers[0]


def _run(h, m, s):
    er = _extra()
    ne = er.data.named_entity
    assert ne['hour'] == ['5'] and next(iter(ne.get('daydesc', [])), '') == DESC
    ne['hour'] = [digits.ph(h, 2)]
    if FORM in ('digit', 'cjk'):
        assert ne['min'] in (['07'], ['7']) and ne['sec'] in (['09'], ['9'])
        ne['min'] = [digits.ph(m, 2)]
        ne['sec'] = [digits.ph(s, 2)]
    pr = ZP.parse(er, datetime(2016, 11, 7, 7, 30))
    return pr


def _natural(h, desc=None):
    """the hours a day-part word can describe: a 12-hour-clock hour (<= 12) that falls into the word's window after the shift, or a
    24-hour-clock hour already inside the window (晚上: 6..12 and 18..24).  A 24-hour-clock hour outside the window ('傍晚13点') is a
    contradictory input: finding F49, outside this obligation"""
    desc = DESC if desc is None else desc
    if desc not in LOW:
        return True
    b = LOW[desc]
    return (b - 12 <= h and h <= 12) or (b <= h and h < b + 12)


def h_zh_time(h: int, m: int, s: int):
    assert 0 <= h <= 24 and 0 <= m <= 59 and 0 <= s <= 59
    assert _natural(h)
    digits.reset()
    pr = _run(h, m, s)
    v = pr.value
    assert v is not None and v.success
    tx = digits._join(digits._norm(digits.decode(pr.timex_str)))
    assert tx and tx[0] == 'T' and not isinstance(tx[1], str) and tx[1][1] == 2, ('timex shape', pr.timex_str)
    e = tx[1][0]
    if DESC in LOW:
        b = LOW[DESC]
        assert (e - h) % 12 == 0 and b <= e and e < b + 12, ('hour outside the window of the day-part word', DESC, pr.timex_str)
    else:
        assert e == h, ('hour changed without a day-part window', DESC, pr.timex_str)
    em, es = {'digit': (m, s), 'cjk': (m, s), 'hour': (None, None), 'half': (30, None), 'quarter': (15, None), 'quarter3': (45, None)}[FORM]
    want = ['T', (e, 2)]
    if em is not None:
        want += [':', (em, 2)]
        if es is not None:
            want += [':', (es, 2)]
    assert digits.same(digits.decode(pr.timex_str), want), ('timex', pr.timex_str, want)
    val = v.future_resolution[TimeTypeConstants.TIME]
    got = digits.hms(val)
    assert got is not None, ('value shape', val)
    vh = e - 24 if e >= 24 else e
    assert got[0] == vh and got[1] == (em or 0) and got[2] == (es or 0), ('value', val)
    assert v.past_resolution[TimeTypeConstants.TIME] == val


def t_zh_time(h: int, m: int, s: int):
    """reachability twin"""
    assert 0 <= h <= 24 and 0 <= m <= 59 and 0 <= s <= 59
    assert _natural(h)
    digits.reset()
    pr = _run(h, m, s)
    assert pr.value is None


# ---- composition through the public API (small-scope enumeration; not a solver verdict) --------------------------------------------
def api_hours(slice_, timeout):
    """every hour 0..24 x every day-part word x the spellings 'H点', 'H:30', 'H点半' through recognize_datetime: one time entity over the
    whole text whose first value is the hour the oracle above gives"""
    from recognizers_date_time import recognize_datetime
    import datetime as _dt
    # bare 晚 / 早 in front of an hour are removed on purpose by the culture's ambiguity filter (AmbiguityFiltersDict): not spellings of a time
    words = [''] + sorted(set(ChineseDateTime.TimeLowBoundDesc) - {'pm', '晚'}) + ['上午', '早上', '凌晨', '清晨']
    n = 0
    for w in words:
        for h in range(0, 25):
            if not _natural(h, w):
                continue
            if w in LOW:
                e = [x for x in range(LOW[w], LOW[w] + 12) if (x - h) % 12 == 0][0]
            else:
                e = h
            for text, mm in (('%s%d点' % (w, h), 0), ('%s%d:30' % (w, h), 30), ('%s%d点半' % (w, h), 30)):
                if h == 24 and mm:
                    continue
                n += 1
                rs = recognize_datetime(text, 'zh-cn', reference=_dt.datetime(2016, 11, 7, 7, 30))
                ok = len(rs) == 1 and rs[0].text == text and rs[0].type_name == 'datetimeV2.time' and rs[0].resolution['values'][0]['value'] == '%02d:%02d:00' % (e % 24, mm)
                if not ok:
                    got = [(r.text, r.type_name, (r.resolution or {}).get('values')) for r in rs]
                    return {'state': 'counterexample', 'cex': {'text': text}, 'detail': '%r -> %r, expected one time entity with value %02d:%02d:00' % (text, got, e % 24, mm), 'queries': n}
    return {'state': 'discharged', 'detail': '%d texts (hours 0..24 x %d day-part words x 3 spellings)' % (n, len(words)), 'queries': n, 'sample': {'texts': n}}


def api_hours__replay(slice_, cex):
    r = api_hours(slice_, 0)
    return {'reproduced': r['state'] == 'counterexample', 'detail': r['detail']}


# ---- date + time: ChineseDateTimeParser._merge_date_and_time ---------------------------------------------------------------------------
from recognizers_date_time.date_time.chinese.datetime_parser import ChineseDateTimeParser  # noqa: E402
from recognizers_date_time.date_time.parsers import DateTimeParseResult  # noqa: E402
from recognizers_date_time.date_time.utilities import DateTimeResolutionResult  # noqa: E402
from recognizers_text.extractor import ExtractResult  # noqa: E402

_ZDT = sys.modules[DT + 'chinese.datetime_parser']
env.assert_repo(_ZDT)
if ENGINE == 'sx':
    for _n, _v in (('datetime', symdate.sdatetime), ('timedelta', symdate.stimedelta)):
        if hasattr(_ZDT, _n):
            setattr(_ZDT, _n, _v)
ZDTP = ChineseDateTimeParser()
F62 = sl('f62', '')          # 'only': explore just the region of finding F62


class _OneExtractor:
    def __init__(self, er):
        self.er = er

    def extract(self, source, reference=None):
        return [self.er]


class _OneParser:
    def __init__(self, pr):
        self.pr = pr

    def parse(self, er, reference=None):
        return self.pr


def _in_f62(h, e):
    """the merge step re-applies a morning / evening shift that the time parser has already decided: an evening word with 12 (= 24:00, hour 0 of the
    value) becomes noon, a morning word (早 / 晨) with an hour from 12 on loses twelve hours"""
    if DESC in LOW:
        return '晚' in DESC and e == 24
    return ('早' in DESC or '晨' in DESC) and h >= 12


def h_zh_date_and_time(y: int, mo: int, d: int, h: int, m: int, s: int):
    """'<date><day-part word><time>': the date-time is composed of that date and of the time as the time parser resolves it alone"""
    assert 1900 <= y <= 2099 and 1 <= mo <= 12 and 1 <= d <= 28 and 0 <= h <= 24 and 0 <= m <= 59 and 0 <= s <= 59
    assert _natural(h)
    digits.reset()
    tpr = _run(h, m, s)                                  # the real time parser on the real extractor match (hour / minute / second symbolic)
    assert tpr.value is not None and tpr.value.success
    tx = digits._join(digits._norm(digits.decode(tpr.timex_str)))
    e = tx[1][0]
    symx_assume = __import__('lib.symx', fromlist=['assume']).assume
    symx_assume(_in_f62(h, e) == (F62 == 'only'))
    dv = DateTimeResolutionResult()
    dv.success = True
    dv.timex = DateTimeFormatUtil.luis_date(y, mo, d)
    dv.future_value = dv.past_value = datetime(y, mo, d)
    der = ExtractResult()
    der.start, der.length, der.text, der.type = 0, 4, 'dddd', Constants.SYS_DATETIME_DATE
    dpr = DateTimeParseResult(der)
    dpr.value, dpr.timex_str = dv, dv.timex
    ter = ExtractResult()
    text = 'dddd' + DESC + TEMPLATE[FORM]
    ter.start, ter.length, ter.text, ter.type = 4, len(text) - 4, text[4:], Constants.SYS_DATETIME_TIME
    ZDTP.config._date_extractor, ZDTP.config._time_extractor = _OneExtractor(der), _OneExtractor(ter)
    ZDTP.config._date_parser, ZDTP.config._time_parser = _OneParser(dpr), _OneParser(tpr)
    r = ZDTP._merge_date_and_time(text, datetime(2016, 11, 7, 7, 30))
    assert r.success
    tv = tpr.value.future_value
    for v in (r.future_value, r.past_value):
        assert (v.year, v.month, v.day) == (y, mo, d), ('date part', r.timex)
        assert (v.hour, v.minute, v.second) == (tv.hour, tv.minute, tv.second), ('the time of the date-time differs from the time resolved alone', r.timex, (tv.hour, tv.minute, tv.second))
    j = digits._join(digits._norm(digits.decode(r.timex)))
    assert len(j) >= 7 and (j[0][0], j[2][0], j[4][0]) == (y, mo, d) and j[5] == 'T' and j[6][0] == tv.hour, ('TIMEX of the date-time', r.timex)
