"""C11 -- Chinese holidays with a year ('2018年除夕', '明年圣诞节'): the real ChineseHolidayParser._match2date on a symbolic year
(digit placeholders) / a symbolic reference year with a relative-year word: the TIMEX, when it is a definite date, is the resolved
value; the year is the stated one.  One slice per holiday name of the parser's own table (read from the real object at run time)."""
import sys

from harness.dtcommon import *  # noqa
from recognizers_date_time.date_time.chinese.holiday_parser import ChineseHolidayParser

_ZH = sys.modules[DT + 'chinese.holiday_parser']
env.assert_repo(_ZH)
_ZH.int = digits.unint
if ENGINE == 'sx':
    for _n, _v in (('datetime', symdate.sdatetime), ('timedelta', symdate.stimedelta)):
        if hasattr(_ZH, _n):
            setattr(_ZH, _n, _v)

P = ChineseHolidayParser()
FIXED = getattr(P, '_ChineseHolidayParser__fixed_holiday_dictionary')
NAMES = sorted(FIXED) + sorted(P.config.holiday_func_dictionary)
NAME = sl('name', '除夕')
REL = sl('rel', '')          # '' (explicit year) | 明年 | 去年 | 今年


class _M:
    def __init__(self, g):
        self.g = g

    def group(self, n=0):
        return self.g.get(n, '')


def h_holiday_year(y: int, ry: int):
    assert 1900 <= y <= 2099 and 1950 <= ry <= 2090
    digits.reset()
    if REL:
        m = _M({'holiday': NAME, 'yearrel': REL})
        want_year = ry + {'明年': 1, '去年': -1, '今年': 0}[REL]
    else:
        m = _M({'holiday': NAME, 'year': digits.ph(y, 4) + '年'})
        want_year = y
    r = P._match2date(m, datetime(ry, 6, 15))
    assert r.success
    f, p = r.future_value, r.past_value
    assert (f.year, f.month, f.day) == (p.year, p.month, p.day)
    j = digits._join(digits._norm(digits.decode(r.timex)))
    lits = ''.join(it if isinstance(it, str) else '#' * it[1] for it in j)
    nums = [it[0] for it in j if not isinstance(it, str)]
    assert lits.startswith('####-'), ('timex shape', r.timex)
    assert nums[0] == want_year, ('TIMEX year differs from the stated year', r.timex)
    if lits == '####-##-##':
        assert (nums[0], nums[1], nums[2]) == (f.year, f.month, f.day), ('value differs from its definite TIMEX', r.timex, (f.year, f.month, f.day))
    else:
        assert f.year == want_year, ('value year differs from the stated year', r.timex, f.year)


def t_holiday_year(y: int, ry: int):
    assert 1900 <= y <= 2099 and 1950 <= ry <= 2090
    digits.reset()
    m = _M({'holiday': NAME, 'year': digits.ph(y, 4) + '年'})
    r = P._match2date(m, datetime(ry, 6, 15))
    assert not r.success
