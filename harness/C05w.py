"""C05 -- wiring behind "the value is what the number model gives for the numeral": the symbolic obligations (O5.1 ..) replace the
number parser inside the unit parser by a stub, i.e. they assume it is the number parser of the model's own culture.  This audit
(finite, exhaustive over the registered models; not a solver verdict) checks that assumption on the real registry, and a small
composition check pushes numerals with separators through the unit API and the number API of the regional cultures."""
from harness.common import *  # noqa
from recognizers_number_with_unit import NumberWithUnitRecognizer, recognize_currency, recognize_dimension, recognize_temperature, recognize_age
from recognizers_number import recognize_number

env.assert_repo(NumberWithUnitRecognizer)


def audit_wiring(slice_, timeout):
    r = NumberWithUnitRecognizer()
    fac = r.model_factory.model_factories
    bad, n = [], 0
    for k in fac:
        model = fac[k](0)
        pairs = list(model.extractor_parser)
        for i, ep in enumerate(pairs):
            cfg = ep.parser.config
            own = getattr(getattr(cfg, 'culture_info', None), 'code', None)
            inner = getattr(getattr(getattr(getattr(cfg, 'internal_number_parser', None), 'config', None), 'culture_info', None), 'code', None)
            n += 1
            # a second (English) pair inside the Chinese models is deliberate: it parses the English spellings with English conventions
            expect = 'en-us' if (i > 0 and type(cfg).__name__.startswith('English')) else k.culture
            if own != expect or inner != expect:
                bad.append((k.model_type, k.culture, type(cfg).__name__, own, inner))
    if bad:
        return {'state': 'counterexample', 'cex': {'first': repr(bad[0])}, 'detail': 'parser configuration / inner number parser built for another culture than the model: %r' % (bad[:4],), 'queries': n}
    return {'state': 'discharged', 'detail': '%d (model, culture, parser) triples' % n, 'queries': n, 'sample': {'triples': n}}


def audit_wiring__replay(slice_, cex):
    r = audit_wiring(slice_, 0)
    return {'reproduced': r['state'] == 'counterexample', 'detail': r['detail']}


CASES = {'es-mx': [(recognize_dimension, ' km'), (recognize_currency, ' pesos mexicanos'), (recognize_temperature, ' grados celsius'), (recognize_age, ' años')],
         'es-es': [(recognize_dimension, ' km'), (recognize_currency, ' euros'), (recognize_temperature, ' grados celsius'), (recognize_age, ' años')],
         'en-us': [(recognize_dimension, ' km'), (recognize_currency, ' dollars'), (recognize_temperature, ' degrees celsius'), (recognize_age, ' years old')],
         'pt-br': [(recognize_dimension, ' km'), (recognize_currency, ' reais')],
         'fr-fr': [(recognize_dimension, ' km'), (recognize_currency, ' euros')],
         'de-de': [(recognize_currency, ' euro')], 'it-it': [(recognize_currency, ' euro')], 'nl-nl': [(recognize_dimension, ' km'), (recognize_currency, ' euro')]}
NUMERALS = ['3.5', '3,5', '1.234', '1,234', '12.75', '12,75', '1.234,5', '1,234.5', '0.5', '0,5', '7']


def api_numerals(slice_, timeout):
    """whenever the number model of the culture reads the numeral as one number and the unit model returns one entity over numeral + unit, the
    unit entity's value is the number model's value"""
    n, bad = 0, []
    for cult, cases in CASES.items():
        for num in NUMERALS:
            nr = recognize_number(num, cult)
            if len(nr) != 1 or nr[0].text != num:
                continue
            want = nr[0].resolution['value']
            for fn, unit in cases:
                rs = fn(num + unit, cult)
                if len(rs) != 1 or rs[0].text != num + unit:
                    continue
                n += 1
                got = rs[0].resolution.get('value')
                if got != want:
                    bad.append((cult, num + unit, got, want))
    if bad:
        return {'state': 'counterexample', 'cex': {'first': repr(bad[0])}, 'detail': 'unit value differs from the number model: (culture, text, got, number model) %r' % (bad[:5],), 'queries': n}
    return {'state': 'discharged', 'detail': '%d (culture, numeral, unit) texts' % n, 'queries': n, 'sample': {'texts': n}}


def api_numerals__replay(slice_, cex):
    r = api_numerals(slice_, 0)
    return {'reproduced': r['state'] == 'counterexample', 'detail': r['detail']}
