"""C07 for the other cultures -- worded am / pm suffixes ('de la tarde', 'du soir', 'da manhã', 'del pomeriggio', 'nachmittags' ...): the real
BaseTimeParser.match_to_time with each culture's real time parser configuration (adjust_by_suffix / adjust_by_prefix and its own suffix
patterns) on symbolic hour and minute; the regex match object is the stub of harness/dtcommon.py carrying the groups hour / min / suffix.
Oracle: a pm word turns an hour below 12 into hour + 12 and leaves 12 alone (12 pm is 12); an am word turns 12 into 0 and leaves the rest."""
import importlib

from harness.dtcommon import *  # noqa

LANG = sl('lang', 'spanish')
WORD = sl('word', 'de la tarde')
KIND = sl('kind', 'pm')
_cm = importlib.import_module('recognizers_date_time.date_time.%s.common_configs' % LANG)
_cfg_cls = [getattr(_cm, n) for n in dir(_cm) if n.endswith('CommonDateTimeParserConfiguration') and n.lower().startswith(LANG[:4])][0]
env.assert_repo(_cm)
XTP = _cfg_cls().time_parser
_mod = importlib.import_module('recognizers_date_time.date_time.%s.time_parser_config' % LANG)
_mod.int = digits.unint


def h_suffix(h: int, m: int):
    assert 1 <= h <= 12 and 0 <= m <= 59
    digits.reset()
    g = {'hour': digits.ph(h, 2), 'min': digits.ph(m, 2), 'suffix': WORD}
    r = XTP.match_to_time(FakeMatch(g), datetime(2016, 11, 7, 7, 30))
    assert r.success is True
    if KIND == 'pm':
        eh = h + 12 if h < 12 else 12
    else:
        eh = 0 if h == 12 else h
    assert digits.same(digits.decode(r.timex), ['T', (eh, 2), ':', (m, 2)]), ('timex', r.timex, eh)
    v = r.future_value
    assert (v.hour, v.minute) == (eh, m) and r.past_value == v
    assert r.comment != 'ampm', 'a time with a worded am / pm suffix is not ambiguous'


def t_suffix(h: int, m: int):
    assert 1 <= h <= 12 and 0 <= m <= 59
    digits.reset()
    g = {'hour': digits.ph(h, 2), 'min': digits.ph(m, 2), 'suffix': WORD}
    r = XTP.match_to_time(FakeMatch(g), datetime(2016, 11, 7, 7, 30))
    assert r.success is not True
