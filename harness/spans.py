"""C01 / C12 -- span arithmetic and overlap resolution with the regex engine replaced by a stub that returns
*symbolic* match intervals obeying the documented finditer contract (per pattern: non-empty, ordered,
non-overlapping, inside the source; group() is the slice).  The real sweep / merge / filter code runs on them."""
import sys

from harness.common import *  # noqa
from lib.symx import assume

ENGINE = os.environ.get('VERIF_ENGINE', 'native')
SRC = sl('src', 'ab cd ef')
N = len(SRC)


class FM:
    """match object stub: interval [a, b) of `source`"""
    def __init__(self, source, a, b, groups=None):
        self.string, self.a, self.b, self.g = source, a, b, groups or {}

    def start(self, *x):
        return self.a

    def end(self, *x):
        return self.b

    def group(self, name=0):
        if name == 0:
            return self.string[self.a:self.b]
        return self.g.get(name)

    def groupdict(self):
        return dict(self.g)

    def span(self):
        return (self.a, self.b)

    def __bool__(self):
        return True


class Table:
    """stands in for the `regex` module: finditer/search answer from a table keyed by pattern identity"""
    def __init__(self):
        self.finds = {}        # id(pattern) -> list of (a, b)
        self.searches = []     # list of (pattern, function(text) -> FM or None)

    def finditer(self, pattern, source, *a, **k):
        return iter([FM(source, x, y) for (x, y) in self.finds.get(id(pattern), [])])

    def search(self, pattern, text, *a, **k):
        for p, f in self.searches:
            if p is pattern:
                return f(text)
        return None

    match = search

    def compile(self, *a, **k):
        import regex
        return regex.compile(*a, **k)

    def __getattr__(self, name):
        import regex
        return getattr(regex, name)


def ordered(iv, n):
    """finditer contract for one pattern: 0 <= a1 < b1 <= a2 < b2 ... <= n"""
    last = 0
    for (a, b) in iv:
        if not (last <= a and a < b and b <= n):
            return False
        last = b
    return True


def disjoint(spans):
    for i in range(len(spans)):
        for j in range(i + 1, len(spans)):
            (s1, l1), (s2, l2) = spans[i], spans[j]
            if not (s1 + l1 <= s2 or s2 + l2 <= s1):
                return False
    return True


def well_formed(er, source):
    """C01 (b): in range, non-empty, text is the (end-trimmed) slice"""
    return 0 <= er.start and er.length >= 1 and er.start + er.length <= len(source) \
        and er.text == source[er.start:er.start + er.length].strip()


# ---- the matched[] sweep of the number extractor ------------------------------------------------------------------
from recognizers_number.number.english.extractors import EnglishNumberExtractor  # noqa: E402
NUM_MOD = sys.modules['recognizers_number.number.extractors']
env.assert_repo(NUM_MOD)
NUM_EX = EnglishNumberExtractor()
NT = Table()
NUM_MOD.regex = NT
P0, P1 = NUM_EX.regexes[0].re, NUM_EX.regexes[1].re
K = sl('k', [2, 1])          # number of matches of pattern 0 / pattern 1


def _runs(iv, n):
    """independent oracle: maximal runs of the union of the match intervals"""
    cover = [False] * n
    for (a, b) in iv:
        for i in range(int(a), int(b)):
            cover[i] = True
    runs = []
    i = 0
    while i < n:
        if cover[i]:
            j = i
            while j < n and cover[j]:
                j += 1
            runs.append((i, j))
            i = j
        else:
            i += 1
    return runs


def h_number_sweep(a1: int, b1: int, a2: int, b2: int, a3: int, b3: int, neg: bool, na: int):
    iv0 = [(a1, b1), (a2, b2)][:K[0]]
    iv1 = [(a3, b3)][:K[1]]
    assume(ordered(iv0, N) and ordered(iv1, N) and 0 <= na < N)
    NT.finds = {id(P0): iv0, id(P1): iv1}
    allm = iv0 + iv1
    # the negative-term pattern is '$'-anchored: a match on source[0:start] ends at `start`; it lies outside every number match
    def negf(text):
        if neg and na < len(text) and all(not (a < len(text) and na < b) for (a, b) in allm):
            return FM(text, na, len(text))
        return None
    NT.searches = [(NUM_EX._negative_number_terms, negf)]
    out = NUM_EX.extract(SRC)
    runs = _runs(allm, N)
    spans = []
    for er in out:
        assert well_formed(er, SRC), (er.start, er.length, er.text)
        spans.append((er.start, er.length))
        # each result is a maximal run that one single match covers exactly, possibly widened to the left by the negative term
        end = er.start + er.length
        cand = [r for r in runs if r[1] == end and any((a, b) == r for (a, b) in allm)]
        assert len(cand) == 1
        r = cand[0]
        assert er.start == r[0] or (neg and er.start == na and na < r[0])
    assert disjoint(spans)
    # completeness of the sweep: every maximal run that is exactly one match yields a result
    exact = [r for r in runs if any((a, b) == r for (a, b) in allm)]
    assert len(out) == len(exact)


def t_number_sweep(a1: int, b1: int, a2: int, b2: int, a3: int, b3: int, neg: bool, na: int):
    iv0 = [(a1, b1), (a2, b2)][:K[0]]
    iv1 = [(a3, b3)][:K[1]]
    assume(ordered(iv0, N) and ordered(iv1, N) and 0 <= na < N)
    NT.finds = {id(P0): iv0, id(P1): iv1}
    NT.searches = []
    assert len(NUM_EX.extract(SRC)) == 0


# ---- the same sweep in the sequence extractor ----------------------------------------------------------------------
from recognizers_sequence.sequence.english.extractors import EnglishIpExtractorConfiguration  # noqa: E402
from recognizers_sequence.sequence.extractors import BaseIpExtractor, SequenceExtractor  # noqa: E402
SEQ_MOD = sys.modules['recognizers_sequence.sequence.extractors']
env.assert_repo(SEQ_MOD)


class TwoPatternExtractor(SequenceExtractor):
    """the base-class sweep with two opaque patterns (the concrete sequence extractors only add filters)"""
    A, B = object(), object()

    @property
    def regexes(self):
        from recognizers_sequence.sequence.extractors import ReVal
        return [ReVal(self.A, 'A'), ReVal(self.B, 'B')]

    @property
    def _extract_type(self):
        return 'seq'


SEQ_EX = TwoPatternExtractor()
ST = Table()
for _name in ('re', 'regex'):
    if hasattr(SEQ_MOD, _name):
        setattr(SEQ_MOD, _name, ST)


def h_sequence_sweep(a1: int, b1: int, a2: int, b2: int, a3: int, b3: int):
    iv0 = [(a1, b1), (a2, b2)][:K[0]]
    iv1 = [(a3, b3)][:K[1]]
    assume(ordered(iv0, N) and ordered(iv1, N))
    ST.finds = {id(SEQ_EX.A): iv0, id(SEQ_EX.B): iv1}
    out = SEQ_EX.extract(SRC)
    allm = iv0 + iv1
    runs = _runs(allm, N)
    exact = [r for r in runs if any((a, b) == r for (a, b) in allm)]
    spans = []
    for er in out:
        assert well_formed(er, SRC)
        spans.append((er.start, er.length))
        assert (er.start, er.start + er.length) in exact
    assert disjoint(spans) and len(out) == len(exact)


# ---- BaseMergedExtractor.add_to ------------------------------------------------------------------------------------
from recognizers_text.extractor import ExtractResult  # noqa: E402
from recognizers_date_time.date_time.base_merged import BaseMergedExtractor  # noqa: E402
from recognizers_date_time.date_time.english.merged_extractor_config import EnglishMergedExtractorConfiguration  # noqa: E402
from recognizers_date_time.date_time.utilities import DateTimeOptions, merge_all_tokens, Token  # noqa: E402
ME = BaseMergedExtractor(EnglishMergedExtractorConfiguration(), DateTimeOptions.NONE)
env.assert_repo(BaseMergedExtractor, merge_all_tokens)
ND = sl('nd', 2)
L = sl('len', 8)


def _er(s, l):
    e = ExtractResult()
    e.start, e.length, e.text, e.type = s, l, 'x', 't'
    return e


def _covers_one_and_crosses_another(dst, v):
    """known-finding region F3a: the new result strictly covers one existing result and partially overlaps another"""
    vs, vl = v
    ve = vs + vl
    cov = False
    cross = False
    for (s, l) in dst:
        e = s + l
        overlap = s < ve and vs < e
        covered = vs <= s and e <= ve and (vs < s or e < ve)
        if overlap and covered:
            cov = True
        if overlap and not covered:
            cross = True
    return cov and cross


def _add_to_pre(d, v):
    return all(0 <= s and 1 <= l and s + l <= L for (s, l) in d + [v]) and disjoint(d)


def h_add_to(s1: int, l1: int, s2: int, l2: int, s3: int, l3: int, vs: int, vl: int):
    d = [(s1, l1), (s2, l2), (s3, l3)][:ND]
    assume(_add_to_pre(d, (vs, vl)) and not _covers_one_and_crosses_another(d, (vs, vl)))
    out = ME.add_to([_er(s, l) for (s, l) in d], [_er(vs, vl)], 'x' * L)
    assert disjoint([(e.start, e.length) for e in out])
    # nothing disappears without being covered by what replaced it
    for (s, l) in d:
        assert any(e.start <= s and s + l <= e.start + e.length for e in out)


def h_add_to_kf(s1: int, l1: int, s2: int, l2: int, s3: int, l3: int, vs: int, vl: int):
    d = [(s1, l1), (s2, l2), (s3, l3)][:ND]
    assume(_add_to_pre(d, (vs, vl)) and _covers_one_and_crosses_another(d, (vs, vl)))
    out = ME.add_to([_er(s, l) for (s, l) in d], [_er(vs, vl)], 'x' * L)
    assert disjoint([(e.start, e.length) for e in out])


def t_add_to(s1: int, l1: int, s2: int, l2: int, s3: int, l3: int, vs: int, vl: int):
    d = [(s1, l1), (s2, l2), (s3, l3)][:ND]
    assume(_add_to_pre(d, (vs, vl)))
    out = ME.add_to([_er(s, l) for (s, l) in d], [_er(vs, vl)], 'x' * L)
    assert len(out) == 0


# ---- merge_all_tokens -------------------------------------------------------------------------------------------
NT_ = sl('nt', 3)


def h_merge_all_tokens(s1: int, e1: int, s2: int, e2: int, s3: int, e3: int, s4: int, e4: int):
    toks = [(s1, e1), (s2, e2), (s3, e3), (s4, e4)][:NT_]
    assume(all(0 <= s and s < e and e <= N for (s, e) in toks))
    out = merge_all_tokens([Token(s, e) for (s, e) in toks], SRC, 'name')
    spans = []
    for er in out:
        assert 0 <= er.start and er.length >= 1 and er.start + er.length <= N
        assert er.text == SRC[er.start:er.start + er.length]
        assert (er.start, er.start + er.length) in toks            # every result is one of the tokens
        spans.append((er.start, er.length))
    assert disjoint(spans)
    # every token is inside or overlapped by a surviving one (nothing is lost without a competitor)
    for (s, e) in toks:
        assert any(er.start < e and s < er.start + er.length for er in out)


# ---- BasePercentageExtractor: number masking and position map --------------------------------------------------------
from recognizers_number.number.english.extractors import EnglishPercentageExtractor  # noqa: E402
PCT = EnglishPercentageExtractor()
TOKEN = '@builtin.num'


class _StubNumberExtractor:
    spans = []

    def extract(self, source):
        out = []
        for (s, l) in self.spans:
            e = ExtractResult()
            e.start, e.length, e.text, e.type = s, l, source[s:s + l], 'num'
            out.append(e)
        return out


PCT.number_extractor = _StubNumberExtractor()
NN = sl('nn', 1)      # how many numbers the inner extractor reports


def h_percentage(n1s: int, n1l: int, n2s: int, n2l: int, a: int, b: int):
    nums = [(n1s, n1l), (n2s, n2l)][:NN]
    assume(all(0 <= s and 1 <= l and s + l <= N for (s, l) in nums))
    assume(NN < 2 or n1s + n1l <= n2s)
    nums = [(int(s), int(l)) for (s, l) in nums]
    # independent reconstruction of the masked text and of the map masked index -> original index
    masked = ''
    back = []
    i = 0
    tok_ranges = []
    for (s, l) in nums:
        while i < s:
            back.append(i)
            masked += SRC[i]
            i += 1
        tok_ranges.append((len(masked), len(masked) + len(TOKEN)))
        masked += TOKEN
        back += [s] * len(TOKEN)
        i = s + l
    while i < N:
        back.append(i)
        masked += SRC[i]
        i += 1
    back.append(N)
    assume(0 <= a and a < b and b <= len(masked))
    a, b = int(a), int(b)
    # contract of the percentage patterns: a match never starts or ends strictly inside a number token
    assume(all(not (ts < a < te) and not (ts < b < te) for (ts, te) in tok_ranges))
    _StubNumberExtractor.spans = nums
    NT.finds = {id(PCT.regexes[0]): [(a, b)]}
    out = PCT.extract(SRC)
    assert len(out) == 1
    er = out[0]
    assert well_formed(er, SRC) or SRC[back[a]:back[b]].strip() == ''
    assert er.start == back[a] and er.start + er.length == back[b]
    assert er.text == SRC[back[a]:back[b]].strip()


# ---- Model.parse assemblers: end = start + length - 1 -----------------------------------------------------------------
from recognizers_text.parser import ParseResult  # noqa: E402


class _StubExtractor:
    def __init__(self, ers):
        self.ers = ers

    def extract(self, q, *a):
        return self.ers


class _StubParser:
    def __init__(self, value='v'):
        self.value = value

    def parse(self, er, *a):
        pr = ParseResult(er)
        pr.value = self.value
        pr.resolution_str = 'r'
        pr.timex_str = ''
        return pr


MODEL_KIND = sl('model', 'number')


def _make_model(ers):
    if MODEL_KIND == 'number':
        from recognizers_number.number.models import NumberModel
        return NumberModel(_StubParser(), _StubExtractor(ers))
    if MODEL_KIND == 'unit':
        from recognizers_number_with_unit.number_with_unit.models import CurrencyModel
        from recognizers_number_with_unit.number_with_unit.models import ExtractorParserModel
        return CurrencyModel([ExtractorParserModel(_StubExtractor(ers), _StubParser())])
    if MODEL_KIND == 'sequence':
        from recognizers_sequence.sequence.models import IpAddressModel
        return IpAddressModel(_StubParser(), _StubExtractor(ers))
    if MODEL_KIND == 'phone':
        from recognizers_sequence.sequence.models import PhoneNumberModel
        return PhoneNumberModel(_StubParser(0.5), _StubExtractor(ers))
    if MODEL_KIND == 'datetime':
        from recognizers_date_time.date_time.models import DateTimeModel
        return DateTimeModel(_StubParser(), _StubExtractor(ers))
    if MODEL_KIND == 'choice':
        from recognizers_choice.choice.models import BooleanModel
        return BooleanModel(_StubParser(), _StubExtractor(ers))
    raise ValueError(MODEL_KIND)


def h_model_assemble(s1: int, l1: int, s2: int, l2: int):
    spans = [(s1, l1), (s2, l2)]
    assume(all(0 <= s and 1 <= l and s + l <= N for (s, l) in spans) and s1 + l1 <= s2)
    ers = []
    for (s, l) in spans:
        e = ExtractResult()
        cut = SRC[int(s):int(s) + int(l)]
        assume(cut.strip() != '')
        # the sequence extractors may hand over the trimmed text of an untrimmed span (phone prefix re-spanning does): the span is what
        # counts there; the other extractors always deliver the exact slice
        if MODEL_KIND in ('phone', 'sequence'):
            cut = cut.strip()
        e.start, e.length, e.text, e.type = s, l, cut, 'date' if MODEL_KIND == 'datetime' else 't'
        e.data = 'data'
        ers.append(e)
    m = _make_model(ers)
    if MODEL_KIND == 'choice':
        for e in ers:
            e.data = type('D', (), {'score': 0.5, 'other_matches': [], 'source': SRC})()
    res = m.parse(SRC)
    assert len(res) == 2
    for r, (s, l) in zip(res, spans):
        assert r.start == s and r.end == s + l - 1 and 0 <= r.start <= r.end < N
        want = SRC[int(s):int(s) + int(l)]
        assert r.text == (want.strip() if MODEL_KIND in ('phone', 'sequence') else want)


# ---- AbstractNumberWithUnitModel.parse: the b_add filter ---------------------------------------------------------------
def _identical_or_disjoint(spans):
    """what AbstractNumberWithUnitModel.parse can be handed: each extractor/parser pair yields pairwise disjoint results, and the
    accumulating loop re-processes earlier results, so any two entries are either the same span or disjoint"""
    for j in range(len(spans)):
        for i in range(j):
            (s1, l1), (s2, l2) = spans[i], spans[j]
            same = (s1 == s2) & (l1 == l2) if not isinstance(s1 == s2, bool) else (s1 == s2 and l1 == l2)
            apart = (s1 + l1 <= s2) | (s2 + l2 <= s1) if not isinstance(s1 + l1 <= s2, bool) else (s1 + l1 <= s2 or s2 + l2 <= s1)
            if not (same or apart):
                return False
    return True


def _unit_model_spans(spans):
    from recognizers_number_with_unit.number_with_unit.models import CurrencyModel, ExtractorParserModel
    ers = []
    for (s, l) in spans:
        e = ExtractResult()
        e.start, e.length, e.text, e.type = s, l, 'x', 't'
        ers.append(e)
    m = CurrencyModel([ExtractorParserModel(_StubExtractor(ers), _StubParser())])
    return [(r.start, r.end - r.start + 1) for r in m.parse(SRC)]


def h_b_add(s1: int, l1: int, s2: int, l2: int, s3: int, l3: int):
    spans = [(s1, l1), (s2, l2), (s3, l3)]
    assume(all(0 <= s and 1 <= l and s + l <= N for (s, l) in spans) and _identical_or_disjoint(spans))
    out = _unit_model_spans(spans)
    assert disjoint(out)                                   # repeated results are reported once
    for (s, l) in spans:
        assert any(o[0] == s and o[1] == l for o in out)   # and nothing else is dropped


def _unit_model_two(a_spans, b_spans):
    from recognizers_number_with_unit.number_with_unit.models import CurrencyModel, ExtractorParserModel
    def ers(spans):
        out = []
        for (s, l) in spans:
            e = ExtractResult()
            e.start, e.length, e.text, e.type = s, l, 'x', 't'
            out.append(e)
        return out
    m = CurrencyModel([ExtractorParserModel(_StubExtractor(ers(a_spans)), _StubParser()), ExtractorParserModel(_StubExtractor(ers(b_spans)), _StubParser())])
    return [(r.start, r.end - r.start + 1) for r in m.parse(SRC)]


def h_b_add_two(a1: int, k1: int, a2: int, k2: int, b1: int, m1: int, b2: int, m2: int):
    """a model with two extractor/parser pairs (zh-cn: the Chinese extractor and the English fallback): each extractor delivers
    pairwise disjoint results; a result of the second extractor either is disjoint from, or covers, each result of the first
    (the remaining case -- inside or across an earlier result -- is the region of known finding F36).  The output is pairwise
    disjoint, keeps every result of the first extractor and every second-extractor result that touches nothing."""
    A, B = [(a1, k1), (a2, k2)], [(b1, m1), (b2, m2)]
    assume(all(0 <= s and 1 <= l and s + l <= N for (s, l) in A + B))
    assume(a1 + k1 <= a2 and b1 + m1 <= b2)
    for (bs, bl) in B:
        for (as_, al) in A:
            apart = bs + bl <= as_ or as_ + al <= bs
            covers = bs <= as_ and as_ + al <= bs + bl
            assume(apart or covers)
    out = _unit_model_two(A, B)
    assert disjoint(out)
    for (s, l) in A:
        assert any(o[0] == s and o[1] == l for o in out)
    for (bs, bl) in B:
        touches = False
        for (as_, al) in A:
            if not (bs + bl <= as_ or as_ + al <= bs):
                touches = True
        if not touches:
            assert any(o[0] == bs and o[1] == bl for o in out)


def h_b_add_two_kf(a1: int, k1: int, b1: int, m1: int):
    """region F36: a second-extractor result inside or across a first-extractor result"""
    assume(0 <= a1 and 1 <= k1 and a1 + k1 <= N and 0 <= b1 and 1 <= m1 and b1 + m1 <= N)
    apart = b1 + m1 <= a1 or a1 + k1 <= b1
    covers = b1 <= a1 and a1 + k1 <= b1 + m1
    assume(not apart and not covers)
    out = _unit_model_two([(a1, k1)], [(b1, m1)])
    assert disjoint(out)


def api_witness_f36(slice_, timeout):
    from recognizers_number_with_unit import recognize_currency
    rs = recognize_currency('$20美元', 'zh-cn')
    sp = sorted((r.start, r.end, r.text) for r in rs)
    for x, y in zip(sp, sp[1:]):
        if x[1] >= y[0]:
            return {'state': 'counterexample', 'cex': {'q': '$20美元'}, 'detail': 'overlapping entities %r' % (sp,), 'queries': 1}
    return {'state': 'discharged', 'detail': 'witness no longer overlaps', 'queries': 1}


def api_witness_f36__replay(slice_, cex):
    r = api_witness_f36(slice_, 0)
    return {'reproduced': r['state'] == 'counterexample', 'detail': r['detail']}


# ---- NumberWithUnitExtractor.extract: prefix / suffix offset arithmetic, relative number position ---------------------------------
from recognizers_number_with_unit.number_with_unit.extractors import NumberWithUnitExtractor  # noqa: E402
from recognizers_number_with_unit.number_with_unit.english.extractors import EnglishCurrencyExtractorConfiguration  # noqa: E402
from recognizers_text.matcher.match_result import MatchResult  # noqa: E402
env.assert_repo(NumberWithUnitExtractor)
UEX = NumberWithUnitExtractor(EnglishCurrencyExtractorConfiguration())
UEX.separate_regex = None                     # the separate-unit pass is a different mechanism (regex on the text)
USRC = sl('usrc', 'ab cd ef gh')


class _StubMatcher:
    hits = []

    def find(self, source):
        out = []
        for (s, l) in self.hits:
            m = MatchResult()
            m.start, m.length, m.text = s, l, source[s:s + l]
            out.append(m)
        return out


class _StubNums:
    spans = []

    def extract(self, source):
        out = []
        for (s, l) in self.spans:
            e = ExtractResult()
            e.start, e.length, e.text, e.type = s, l, source[s:s + l], 'builtin.num'
            out.append(e)
        return out


_PM, _SM, _NX = _StubMatcher(), _StubMatcher(), _StubNums()
_PM.hits, _SM.hits = [], []
UEX.prefix_matcher, UEX.suffix_matcher = _PM, _SM
UEX.config._unit_num_extractor = _NX
if not hasattr(type(UEX.config), '_patched_une'):
    type(UEX.config).unit_num_extractor = property(lambda self: _NX)
    type(UEX.config)._patched_une = True


def h_unit_extract(ns: int, nl: int, ps: int, pl: int, ss: int, sl_: int, hasp: bool, hass: bool):
    """one number, at most one prefix-unit match before it and one suffix-unit match after it, all at symbolic positions"""
    n = len(USRC)
    assume(0 <= ns and 1 <= nl and ns + nl <= n)
    assume(hasp or hass)
    if hasp:
        assume(0 <= ps and 1 <= pl and ps + pl <= ns)            # a prefix unit lies before the number
    if hass:
        assume(ns + nl <= ss and 1 <= sl_ and ss + sl_ <= n)      # a suffix unit lies after it
    ns, nl = int(ns), int(nl)
    _NX.spans = [(ns, nl)]
    _PM.hits = [(int(ps), int(pl))] if hasp else []
    _SM.hits = [(int(ss), int(sl_))] if hass else []
    UEX.max_prefix_match_len = n
    out = UEX.extract(USRC)
    # which units attach (independent reading of the rules): only blanks between unit and number
    pre_ok = hasp and USRC[int(ps) + int(pl):ns].strip() == '' and USRC[int(ps):int(ps) + int(pl)].strip() == USRC[int(ps):int(ps) + int(pl)]
    mid = USRC[ns + nl:int(ss)] if hass else None
    suf_ok = hass and (mid == '' or mid.isspace())
    spans = []
    for er in out:
        assert 0 <= er.start and er.length >= 1 and er.start + er.length <= n
        assert er.text == USRC[er.start:er.start + er.length], (er.text, er.start, er.length)
        assert er.start <= ns and ns + nl <= er.start + er.length            # the entity contains its number ...
        assert er.data.start == ns - er.start and er.data.length == nl        # ... and records where it is, relative to itself
        spans.append((er.start, er.length))
    if suf_ok and pre_ok:
        assert spans == [(int(ps), int(ss) + int(sl_) - int(ps))]
    elif suf_ok:
        assert spans == [(ns, int(ss) + int(sl_) - ns)]
    elif pre_ok and not hass:
        assert spans == [(int(ps), ns + nl - int(ps))]
    assert disjoint(spans)


def h_unit_extract_prefixes(ns: int, nl: int, ps: int, pl: int, pl2: int):
    """one number and TWO prefix-unit matches before it, the second being the tail of the first ('hk $' and '$' in 'hk $ 7'): the entity starts at
    the earliest prefix that reaches the number -- the longest listed spelling wins (C05: 'any spelling listed for a unit')"""
    n = len(USRC)
    assume(0 <= ns and 1 <= nl and ns + nl <= n)
    assume(0 <= ps and 2 <= pl and ps + pl <= ns and 1 <= pl2 and pl2 < pl)
    ns, nl, ps, pl, pl2 = int(ns), int(nl), int(ps), int(pl), int(pl2)
    ps2 = ps + pl - pl2
    _NX.spans = [(ns, nl)]
    _PM.hits = [(ps, pl), (ps2, pl2)]          # as the real matcher delivers them: sorted by start
    _SM.hits = []
    UEX.max_prefix_match_len = n
    out = UEX.extract(USRC)
    long_text, short_text = USRC[ps:ps + pl], USRC[ps2:ps2 + pl2]
    gap_blank = USRC[ps + pl:ns].strip() == ''
    spans = [(er.start, er.length) for er in out]
    for er in out:
        assert er.text == USRC[er.start:er.start + er.length]
    if gap_blank and long_text.strip() == long_text:
        assert spans == [(ps, ns + nl - ps)], ('the longer prefix spelling must win', spans)
    elif gap_blank and short_text.strip() == short_text:
        assert spans == [(ps2, ns + nl - ps2)], spans
    assert disjoint(spans)


def t_unit_extract(ns: int, nl: int, ps: int, pl: int, ss: int, sl_: int, hasp: bool, hass: bool):
    n = len(USRC)
    assume(0 <= ns and 1 <= nl and ns + nl <= n and hass and not hasp and ns + nl <= ss and 1 <= sl_ and ss + sl_ <= n)
    _NX.spans = [(int(ns), int(nl))]
    _PM.hits, _SM.hits = [], [(int(ss), int(sl_))]
    assert UEX.extract(USRC) == []


# ---- _select_candidates: prefix/suffix conflict resolution keeps disjoint entities ----------------------------------------------------
def h_select_candidates(s1: int, l1: int, s2: int, l2: int, s3: int, l3: int, p1: bool, p2: bool, p3: bool, k: int):
    assume(2 <= k <= 3)
    k = int(k)
    spans = [(s1, l1), (s2, l2), (s3, l3)][:k]
    n = 10
    assume(all(0 <= s and 2 <= l and s + l <= n for (s, l) in spans))
    assume(all(spans[i][0] <= spans[i + 1][0] for i in range(k - 1)))            # candidates come sorted by start (one per number)
    flags = [p1, p2, p3][:k]
    # every candidate is one number plus its unit: the number is the last character of a prefix-unit entity and the first of a
    # suffix-unit entity; numbers are distinct and no candidate swallows another candidate's number (units may be shared: '5 $ 3')
    nums = [(s + l - 1) if pf else s for (s, l), pf in zip(spans, [bool(f) for f in flags])]
    flags = [bool(f) for f in flags]
    assume(all(nums[i] < nums[i + 1] for i in range(k - 1)))
    assume(all(not (spans[i][0] <= nums[j] and nums[j] < spans[i][0] + spans[i][1]) for i in range(k) for j in range(k) if i != j))
    ers = []
    for (s, l), pf in zip(spans, flags):
        e = ExtractResult()
        e.start, e.length, e.text, e.type = int(s), int(l), 'x' * int(l), 'currency'
        num = ExtractResult()
        # a prefix-unit entity has its number at the end, a suffix-unit entity at the start
        num.start, num.length = (int(l) - 1, 1) if pf else (0, 1)
        e.data = num
        ers.append(e)
    out = UEX._select_candidates('y' * n, list(ers), [bool(f) for f in flags])
    sp = [(e.start, e.length) for e in out]
    assert disjoint(sp), (spans, flags, sp)
    assert all(any(e is o for o in ers) for e in out) and len(out) >= 1
