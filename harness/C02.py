"""C02 -- recognition is a pure function of (query, culture, options, reference): results do not depend on what was recognised before,
on cold/warm model state, or on the calling thread.  symx enumerates (through the solver) ordered pairs of requests from a pool and
the thread on which the second one runs; the real public helpers are called, and the second result must equal the result of the same
request made alone in a fresh state."""
import threading
from datetime import datetime

from harness.common import *  # noqa
from lib.symx import assume
from recognizers_text.model import ModelFactory
from recognizers_number import recognize_number, recognize_ordinal, recognize_percentage
from recognizers_number_with_unit import recognize_currency, recognize_dimension
from recognizers_date_time import recognize_datetime
from recognizers_sequence import recognize_ip_address, recognize_phone_number
from recognizers_choice import recognize_boolean

env.assert_repo(ModelFactory, recognize_number, recognize_datetime)
REF = datetime(2019, 3, 4, 10, 30)
POOL = [
    (recognize_number, ('one third and 12', 'en-us')),
    (recognize_number, ('1 over 7', 'en-us')),
    (recognize_number, ('三分之一', 'zh-cn')),
    (recognize_number, ('sesenta y dos tercios', 'es-es')),
    (recognize_number, ('minus five and 3', 'en-us')),
    (recognize_ordinal, ('the twenty-first', 'en-us')),
    (recognize_percentage, ('12.5 percent', 'en-us')),
    (recognize_currency, ('3 dollars and 50 cents', 'en-us')),
    (recognize_dimension, ('7 km', 'en-us')),
    (recognize_datetime, ('next friday at 5pm', 'en-us')),
    (recognize_datetime, ('le 3 mars', 'fr-fr')),
    (recognize_ip_address, ('ip 192.168.000.1', 'en-us')),
    (recognize_phone_number, ('call 555-123-4567', 'en-us')),
    (recognize_boolean, ('well yes', 'en-us')),
    (recognize_number, ('twelve', 'en-gb')),
    (recognize_number, ('douze', 'fr-ca')),
    # the same text under cultures that read it differently (a memo or cache keyed without the culture would mix them up)
    (recognize_number, ('2,500', 'en-us')),
    (recognize_number, ('2,500', 'de-de')),
    (recognize_number, ('1.234', 'es-es')),
    (recognize_number, ('1.234', 'en-us')),
    (recognize_currency, ('2,500 euros', 'fr-fr')),
    (recognize_currency, ('2,500 euros', 'en-us')),
    (recognize_datetime, ('03/04/2019', 'en-us')),
    (recognize_datetime, ('03/04/2019', 'fr-fr')),
    # numerals in the convention the culture does not write itself (read by the order of the two marks), and numerals a
    # parser left in the wrong convention would misread
    (recognize_number, ('the invoice total was 1.234,56', 'en-us')),
    (recognize_number, ('1,234 and 12.5', 'en-us')),
    (recognize_number, ('1,234.56', 'fr-fr')),
    (recognize_number, ('1.234 et 12,5', 'fr-fr')),
    # expressions whose parsing adjusts a looked-up time-of-day range (early / late): a range object shared through the cached
    # configuration would drift, and plain time-of-day expressions would see it
    (recognize_datetime, ('late this afternoon', 'en-us')),
    (recognize_datetime, ('this afternoon', 'en-us')),
    (recognize_datetime, ('early this evening', 'en-us')),
    (recognize_datetime, ('monday evening', 'en-us')),
    # a compound amount whose fractional unit does NOT belong to its main unit (two entities), next to compounds that do merge: a table
    # of "fraction units seen so far" that survives between calls would merge it
    (recognize_currency, ('3 british pounds and 50 cents', 'en-us')),
    (recognize_currency, ('3 euros and 50 pennies', 'en-us')),
]
CACHE = ModelFactory._ModelFactory__cache


HISTORY = []          # every request this process has made so far (paths of one exploration share the process: that is more history, not less)


def call(k):
    HISTORY.append(int(k))
    f, (q, c) = POOL[k]
    if f is recognize_datetime:
        rs = f(q, c, reference=REF)
    else:
        rs = f(q, c)
    return [(r.text, r.start, r.end, r.type_name, repr(r.resolution)) for r in rs]


def solo_fresh():
    """every request made alone in a *fresh interpreter* (nothing at all can have been recognised before).  Computed once per
    ./check run (first worker, under a file lock) and shared through a scratch file that is removed by the last line of the run."""
    import fcntl
    import subprocess
    import sys
    import tempfile
    rid = os.environ.get('VERIF_RUN_ID', str(os.getpid()))
    path = os.path.join(tempfile.gettempdir(), 'verif_c02_solo_%s.json' % rid)
    with open(path + '.lock', 'w') as lk:
        fcntl.flock(lk, fcntl.LOCK_EX)
        if os.path.exists(path):
            return [[tuple(x) for x in r] for r in json.load(open(path))]
        code = ('import sys, json; sys.path.insert(0, %r); import harness.C02 as H; print("SOLO " + json.dumps(H.call(int(sys.argv[1]))))' % env.VERIF)
        envv = dict(os.environ, VERIF_C02_CHILD='1')
        procs = [subprocess.Popen([sys.executable, '-W', 'ignore', '-c', code, str(k)], stdout=subprocess.PIPE, stderr=subprocess.DEVNULL, text=True, env=envv)
                 for k in range(len(POOL))]
        out = []
        for p_ in procs:
            so, _ = p_.communicate()
            line = [l for l in so.splitlines() if l.startswith('SOLO ')]
            if not line:
                raise env.HarnessError('fresh-interpreter baseline failed for a request')
            out.append(json.loads(line[-1][5:]))
        json.dump(out, open(path, 'w'))
        return [[tuple(x) for x in r] for r in out]


SOLO = [] if os.environ.get('VERIF_C02_CHILD') else solo_fresh()
I0 = sl('i', None)


def h_history(i: int, j: int, cold: bool, thread: bool):
    assume((I0 is None and 0 <= i < len(POOL)) or i == I0)
    assume(0 <= j < len(POOL))
    i, j = int(i), int(j)
    if cold:
        CACHE.clear()
    call(i)                      # whatever was recognised before ...
    out = []
    if thread:
        t = threading.Thread(target=lambda: out.append(call(j)))
        t.start()
        t.join()
    else:
        out.append(call(j))
    assert out and out[0] == SOLO[j], (POOL[i][1], POOL[j][1], out and out[0], SOLO[j])


def t_history(i: int, j: int, cold: bool, thread: bool):
    assume((I0 is None and 0 <= i < len(POOL)) or i == I0)
    assume(0 <= j < len(POOL))
    assert call(int(j)) == []


def h_concurrent(j: int, n: int):
    """n threads issuing the same request at once on shared cached models"""
    assume(0 <= j < len(POOL) and 2 <= n <= 4)
    j, n = int(j), int(n)
    CACHE.clear()
    outs = []
    lock = threading.Lock()
    barrier = threading.Barrier(n)

    def work():
        barrier.wait()
        r = call(j)
        with lock:
            outs.append(r)
    ts = [threading.Thread(target=work) for _ in range(n)]
    for t in ts:
        t.start()
    for t in ts:
        t.join()
    assert len(outs) == n and all(o == SOLO[j] for o in outs), (POOL[j][1], outs)


# ---- inventory of state that outlives a call (frame condition of the purity argument) -----------------------------------------------
def _scan_shared_state():
    """class-level and module-level mutable containers in the recogniser packages (resource tables excluded): the only
    places through which one call can influence another"""
    import ast
    root = os.path.join(env.REPO, 'Python', 'libraries')
    found = []
    for lib in env.LIBS:
        for dp, dn, fn in os.walk(os.path.join(root, lib)):
            if os.sep + 'resources' in dp or os.sep + 'tests' in dp:
                continue
            for f in fn:
                if not f.endswith('.py') or f == 'setup.py':
                    continue
                path = os.path.join(dp, f)
                try:
                    tree = ast.parse(open(path, encoding='utf-8').read())
                except SyntaxError:
                    continue

                def mutable(v):
                    if isinstance(v, (ast.Dict, ast.List, ast.Set, ast.DictComp, ast.ListComp, ast.SetComp)):
                        return True
                    if isinstance(v, ast.Call):
                        n = v.func
                        name = n.id if isinstance(n, ast.Name) else getattr(n, 'attr', '')
                        return name in ('dict', 'list', 'set', 'defaultdict', 'OrderedDict', 'Counter', 'deque', 'lru_cache', 'cache')
                    return False

                def visit(body, owner):
                    for st in body:
                        if isinstance(st, ast.ClassDef):
                            visit(st.body, st.name)
                        targets, value = [], None
                        if isinstance(st, ast.Assign):
                            targets, value = st.targets, st.value
                        elif isinstance(st, ast.AnnAssign) and st.value is not None:
                            targets, value = [st.target], st.value
                        for t in targets:
                            if isinstance(t, ast.Name) and value is not None and mutable(value):
                                found.append('%s:%s.%s' % (os.path.relpath(path, root), owner, t.id))
                        if isinstance(st, (ast.FunctionDef, ast.AsyncFunctionDef)):
                            for d in st.decorator_list:
                                n = d.func if isinstance(d, ast.Call) else d
                                nm = n.id if isinstance(n, ast.Name) else getattr(n, 'attr', '')
                                if nm in ('lru_cache', 'cache', 'cached_property'):
                                    found.append('%s:%s.%s@%s' % (os.path.relpath(path, root), owner, st.name, nm))
                            for dflt in st.args.defaults + [d for d in st.args.kw_defaults if d is not None]:
                                if mutable(dflt):
                                    found.append('%s:%s.%s(mutable default)' % (os.path.relpath(path, root), owner, st.name))
                visit(tree.body, '<module>')
    return sorted(set(found))


ALLOW = os.path.join(os.path.dirname(os.path.abspath(__file__)), 'state_allowlist.json')


def state_inventory(slice_, timeout):
    found = _scan_shared_state()
    allow = json.load(open(ALLOW))['allowed']
    new = [x for x in found if x not in allow]
    if new:
        return {'state': 'inconclusive', 'queries': len(found),
                'detail': 'frame-changed: new class/module-level mutable state not covered by the purity argument: %s' % ', '.join(new[:8])}
    return {'state': 'discharged', 'detail': '%d shared mutable objects, all on the reviewed list' % len(found), 'queries': len(found), 'sample': {'objects': found[:6]}}


def history_pairs(slice_, timeout):
    """symx exploration of h_history; a counterexample carries the whole request history of the process, because state that leaks
    between requests also leaks between explored paths, and the replay must reproduce that history in a fresh interpreter"""
    from lib import symx
    symx.selftest()
    del HISTORY[:]
    r = symx.explore(h_history, timeout)
    if r.get('state') == 'counterexample':
        r['cex'] = dict(r['cex'], history=list(HISTORY))
    return r


def history_pairs__replay(slice_, cex):
    hist = cex.get('history') or [cex['i'], cex['j']]
    j = hist[-1]
    CACHE.clear()
    for k in hist[:-1]:
        call(k)
    out = []
    if cex.get('thread'):
        t = threading.Thread(target=lambda: out.append(call(j)))
        t.start()
        t.join()
    else:
        out.append(call(j))
    bad = out[0] != SOLO[j]
    return {'reproduced': bad, 'detail': 'after the history %r the request %r returns %r; alone in a fresh interpreter it returns %r' % (
        [POOL[k][1] for k in hist[:-1]][-6:], POOL[j][1], out[0], SOLO[j])}
