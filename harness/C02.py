"""C02 -- recognition is a pure function of (query, culture, options, reference): results do not depend on what was recognised before,
on cold/warm model state, or on the calling thread.  symx enumerates (through the solver) ordered pairs of requests from a pool and
the thread on which the second one runs; the real public helpers are called, and the second result must equal the result of the same
request made alone in a fresh state."""
import threading
from datetime import datetime

from harness.common import *  # noqa
from lib.symx import assume
from recognizers_text.model import ModelFactory
from recognizers_number import recognize_number, recognize_ordinal, recognize_percentage
from recognizers_number_with_unit import recognize_currency, recognize_dimension
from recognizers_date_time import recognize_datetime
from recognizers_sequence import recognize_ip_address, recognize_phone_number
from recognizers_choice import recognize_boolean

env.assert_repo(ModelFactory, recognize_number, recognize_datetime)
REF = datetime(2019, 3, 4, 10, 30)
POOL = [
    (recognize_number, ('one third and 12', 'en-us')),
    (recognize_number, ('1 over 7', 'en-us')),
    (recognize_number, ('三分之一', 'zh-cn')),
    (recognize_number, ('sesenta y dos tercios', 'es-es')),
    (recognize_number, ('minus five and 3', 'en-us')),
    (recognize_ordinal, ('the twenty-first', 'en-us')),
    (recognize_percentage, ('12.5 percent', 'en-us')),
    (recognize_currency, ('3 dollars and 50 cents', 'en-us')),
    (recognize_dimension, ('7 km', 'en-us')),
    (recognize_datetime, ('next friday at 5pm', 'en-us')),
    (recognize_datetime, ('le 3 mars', 'fr-fr')),
    (recognize_ip_address, ('ip 192.168.000.1', 'en-us')),
    (recognize_phone_number, ('call 555-123-4567', 'en-us')),
    (recognize_boolean, ('well yes', 'en-us')),
    (recognize_number, ('twelve', 'en-gb')),
    (recognize_number, ('douze', 'fr-ca')),
]
CACHE = ModelFactory._ModelFactory__cache


def call(k):
    f, (q, c) = POOL[k]
    if f is recognize_datetime:
        rs = f(q, c, reference=REF)
    else:
        rs = f(q, c)
    return [(r.text, r.start, r.end, r.type_name, repr(r.resolution)) for r in rs]


def solo(k):
    """the request made alone: cold cache, main thread"""
    CACHE.clear()
    return call(k)


SOLO = [solo(k) for k in range(len(POOL))]
I0 = sl('i', None)


def h_history(i: int, j: int, cold: bool, thread: bool):
    assume((I0 is None and 0 <= i < len(POOL)) or i == I0)
    assume(0 <= j < len(POOL))
    i, j = int(i), int(j)
    if cold:
        CACHE.clear()
    call(i)                      # whatever was recognised before ...
    out = []
    if thread:
        t = threading.Thread(target=lambda: out.append(call(j)))
        t.start()
        t.join()
    else:
        out.append(call(j))
    assert out and out[0] == SOLO[j], (POOL[i][1], POOL[j][1], out and out[0], SOLO[j])


def t_history(i: int, j: int, cold: bool, thread: bool):
    assume((I0 is None and 0 <= i < len(POOL)) or i == I0)
    assume(0 <= j < len(POOL))
    assert call(int(j)) == []


def h_concurrent(j: int, n: int):
    """n threads issuing the same request at once on shared cached models"""
    assume(0 <= j < len(POOL) and 2 <= n <= 4)
    j, n = int(j), int(n)
    CACHE.clear()
    outs = []
    lock = threading.Lock()
    barrier = threading.Barrier(n)

    def work():
        barrier.wait()
        r = call(j)
        with lock:
            outs.append(r)
    ts = [threading.Thread(target=work) for _ in range(n)]
    for t in ts:
        t.start()
    for t in ts:
        t.join()
    assert len(outs) == n and all(o == SOLO[j] for o in outs), (POOL[j][1], outs)
