"""C02 -- order independence over a long, varied history (composition check, not a solver verdict).

The inputs of the model-level Specs files (used here only as a large, realistic pool of queries -- the expected outputs of the corpus
are NOT consulted: that would be C19) are recognised in several fresh interpreters, each in a different order.  Purity implies that a
query's result does not depend on what was recognised before it, so all orders must give identical results for every query."""
import glob
import json
import subprocess
import sys

from harness.common import *  # noqa

FILES = {
    'number-en': ('Number/English/NumberModel.json', 'number', 'en-us'),
    'ordinal-en': ('Number/English/OrdinalModel.json', 'ordinal', 'en-us'),
    'percent-en': ('Number/English/PercentModel.json', 'percentage', 'en-us'),
    'currency-en': ('NumberWithUnit/English/CurrencyModel.json', 'currency', 'en-us'),
    'dimension-en': ('NumberWithUnit/English/DimensionModel.json', 'dimension', 'en-us'),
    'datetime-en': ('DateTime/English/DateTimeModel.json', 'datetime', 'en-us'),
    'number-fr': ('Number/French/NumberModel.json', 'number', 'fr-fr'),
    'number-es': ('Number/Spanish/NumberModel.json', 'number', 'es-es'),
    'number-zh': ('Number/Chinese/NumberModel.json', 'number', 'zh-cn'),
    'datetime-zh': ('DateTime/Chinese/DateTimeModel.json', 'datetime', 'zh-cn'),
    'currency-zh': ('NumberWithUnit/Chinese/CurrencyModel.json', 'currency', 'zh-cn'),
}


def load_pool(limit):
    pool = []
    for key, (rel, kind, culture) in sorted(FILES.items()):
        p = os.path.join(env.REPO, 'Specs', rel)
        if not os.path.exists(p):
            continue
        try:
            cases = json.load(open(p, encoding='utf-8-sig'))
        except ValueError:
            continue
        n = 0
        for c in cases:
            q = c.get('Input')
            if not isinstance(q, str) or 'NotSupportedByDesign' in c and 'python' in str(c.get('NotSupportedByDesign', '')).lower():
                continue
            ref = (c.get('Context') or {}).get('ReferenceDateTime')
            pool.append((kind, culture, q, ref))
            n += 1
            if n >= limit:
                break
    return pool


def recognise(item):
    kind, culture, q, ref = item
    from datetime import datetime as _dt
    if kind == 'datetime':
        from recognizers_date_time import recognize_datetime
        r = _dt.strptime(ref[:19], '%Y-%m-%dT%H:%M:%S') if ref else _dt(2016, 11, 7)
        rs = recognize_datetime(q, culture, reference=r)
    elif kind in ('number', 'ordinal', 'percentage'):
        import recognizers_number as rn
        rs = getattr(rn, 'recognize_' + kind)(q, culture)
    elif kind in ('phone', 'ip', 'email', 'url', 'hashtag', 'mention', 'guid'):
        import recognizers_sequence as rq
        rs = getattr(rq, {'phone': 'recognize_phone_number', 'ip': 'recognize_ip_address'}.get(kind, 'recognize_' + kind))(q, culture)
    elif kind == 'boolean':
        from recognizers_choice import recognize_boolean
        rs = recognize_boolean(q, culture)
    else:
        import recognizers_number_with_unit as ru
        rs = getattr(ru, 'recognize_' + kind)(q, culture)
    return [(r.text, r.start, r.end, r.type_name, json.dumps(r.resolution, sort_keys=True, default=str, ensure_ascii=False)) for r in rs]


def run_order(order_seed, limit):
    """child process entry: recognise the whole pool in the order given by the seed; print one JSON object"""
    import random
    pool = load_pool(limit)
    idx = list(range(len(pool)))
    if order_seed == -1:
        idx.reverse()
    elif order_seed > 0:
        random.Random(order_seed).shuffle(idx)
    out = {}
    for i in idx:
        try:
            out[i] = recognise(pool[i])
        except Exception as e:  # noqa
            out[i] = ['EXC ' + type(e).__name__]
    print('ORDER ' + json.dumps(out, ensure_ascii=False))


def order_independence(slice_, timeout):
    limit = slice_.get('limit', 150)
    seeds = slice_.get('orders', [0, -1, 7])
    code = 'import sys; sys.path.insert(0, %r); import harness.corpus as H; H.run_order(int(sys.argv[1]), int(sys.argv[2]))' % env.VERIF
    procs = [subprocess.Popen([sys.executable, '-W', 'ignore', '-c', code, str(sd), str(limit)], stdout=subprocess.PIPE, stderr=subprocess.DEVNULL, text=True,
                              env=dict(os.environ, VERIF_SLICE='{}')) for sd in seeds]
    results = []
    for p_ in procs:
        so, _ = p_.communicate()
        line = [l for l in so.splitlines() if l.startswith('ORDER ')]
        if not line:
            raise env.HarnessError('an order run produced no output')
        results.append(json.loads(line[-1][6:]))
    pool = load_pool(limit)
    n = len(pool)
    for i in range(n):
        vals = [r.get(str(i)) for r in results]
        if any(v != vals[0] for v in vals[1:]):
            k = [j for j, v in enumerate(vals) if v != vals[0]][0]
            return {'state': 'counterexample', 'cex': {'index': i, 'query': pool[i][2], 'culture': pool[i][1], 'kind': pool[i][0], 'orders': [seeds[0], seeds[k]], 'limit': limit},
                    'detail': 'the result of %r (%s, %s) depends on the history: order %r gives %r, order %r gives %r' % (
                        pool[i][2], pool[i][0], pool[i][1], seeds[0], vals[0], seeds[k], vals[k]), 'queries': n * len(seeds)}
    return {'state': 'discharged', 'detail': '%d queries x %d orders: identical results' % (n, len(seeds)), 'queries': n * len(seeds), 'sample': {'pool': n, 'orders': seeds}}


def order_independence__replay(slice_, cex):
    r = order_independence({'limit': cex.get('limit', 150), 'orders': cex['orders']}, 0)
    return {'reproduced': r['state'] == 'counterexample', 'detail': r['detail']}


# ---- C01 / C12 on the same pool: span contract and disjointness of whatever the recognisers return ----------------------------------
ALL_FILES = {
    'number': ('Number/%s/NumberModel.json', 'number'), 'ordinal': ('Number/%s/OrdinalModel.json', 'ordinal'), 'percentage': ('Number/%s/PercentModel.json', 'percentage'),
    'currency': ('NumberWithUnit/%s/CurrencyModel.json', 'currency'), 'dimension': ('NumberWithUnit/%s/DimensionModel.json', 'dimension'),
    'age': ('NumberWithUnit/%s/AgeModel.json', 'age'), 'temperature': ('NumberWithUnit/%s/TemperatureModel.json', 'temperature'),
    'datetime': ('DateTime/%s/DateTimeModel.json', 'datetime'),
    'phone': ('Sequence/%s/PhoneNumberModel.json', 'phone'), 'ip': ('Sequence/%s/IpAddressModel.json', 'ip'), 'email': ('Sequence/%s/EmailModel.json', 'email'),
    'url': ('Sequence/%s/URLModel.json', 'url'), 'hashtag': ('Sequence/%s/HashtagModel.json', 'hashtag'), 'mention': ('Sequence/%s/MentionModel.json', 'mention'),
    'guid': ('Sequence/%s/GUIDModel.json', 'guid'), 'boolean': ('Choice/%s/BooleanModel.json', 'boolean'),
}
LANGS = {'en-us': 'English', 'es-es': 'Spanish', 'fr-fr': 'French', 'pt-br': 'Portuguese', 'de-de': 'German', 'it-it': 'Italian', 'nl-nl': 'Dutch', 'zh-cn': 'Chinese', 'ja-jp': 'Japanese'}


# recorded findings identified by their inputs (es-es overlaps inside the Spanish merged extractor, F43)
KNOWN_INPUTS = {('es-es', '¿Cuáles son las ventas para el año posterior a 2012?'), ('es-es', 'nos vemos más tarde esta tarde.')}


def span_scan(slice_, timeout):
    """every input of the culture's model-level Specs files (as a pool of realistic queries; expected outputs not consulted) through the
    public API: 0 <= start <= end < len, text = normalised slice, entities pairwise disjoint.  Anomalies that the call-site monitors
    attribute to recorded findings (F3a, F36, F37, F41) are excused; recorded findings identified by input (F43) are skipped by input."""
    os.environ['VERIF_SLICE'] = json.dumps({'kind': 'datetime', 'culture': slice_['culture']})
    import importlib
    import harness.compose as C
    importlib.reload(C)
    culture = slice_['culture']
    lang = LANGS[culture]
    n = 0
    files = sorted(ALL_FILES.items())
    if slice_.get('all_files'):
        # thorough: every Specs file of the culture's DateTime / Number / NumberWithUnit folders (extractor- and parser-level inputs too), each through the matching public recogniser
        import glob as _glob
        files = []
        for folder, kinds in (('DateTime', {'': 'datetime'}), ('Number', {'Ordinal': 'ordinal', 'Percent': 'percentage', '': 'number'}),
                              ('NumberWithUnit', {'Currency': 'currency', 'Dimension': 'dimension', 'Age': 'age', 'Temperature': 'temperature'})):
            for f in sorted(_glob.glob(os.path.join(env.REPO, 'Specs', folder, lang, '*.json'))):
                base = os.path.basename(f)
                kind = next((v for k, v in kinds.items() if k and base.startswith(k)), kinds.get(''))
                if kind:
                    files.append((base, (os.path.relpath(f, os.path.join(env.REPO, 'Specs')).replace(lang, '%s', 1), kind)))
    for key, (rel, kind) in files:
        p = os.path.join(env.REPO, 'Specs', rel % lang)
        if not os.path.exists(p):
            continue
        try:
            cases = json.load(open(p, encoding='utf-8-sig'))
        except ValueError:
            continue
        C.KIND = kind
        for c in cases:
            q = c.get('Input')
            if not isinstance(q, str):
                continue
            ref = (c.get('Context') or {}).get('ReferenceDateTime')
            del C.F3A[:], C.F36[:], C.F37[:]
            try:
                if kind == 'datetime':
                    C._install_add_to_monitor()
                    if culture == 'zh-cn':
                        C._install_zh_add_mod_monitor()
                    rs = recognise((kind, culture, q, ref))
                    rs_objs = None
                elif culture == 'zh-cn' and kind in ('currency', 'dimension', 'age', 'temperature'):
                    model = C._unit_model_with_monitor(kind)
                    rs_objs = model.parse(q)
                    C._attribute_f36(model)
                    C._attribute_f41(model)
                    rs = [(r.text, r.start, r.end) for r in rs_objs]
                else:
                    rs = recognise((kind, culture, q, ref))
            except Exception as e:  # noqa
                return {'state': 'counterexample', 'cex': {'culture': culture, 'kind': kind, 'q': q}, 'detail': 'recogniser raised %r on %r' % (e, q), 'queries': n}
            n += 1
            if C.F37:
                continue
            ents = [(t[0], t[1], t[2]) for t in rs]
            if (culture, q) in KNOWN_INPUTS:
                continue
            norm = C._norm(q)
            for (text, a, b) in ents:
                if not (0 <= a <= b < len(q)) or norm[a:b + 1].strip() != C._norm(text).strip():
                    return {'state': 'counterexample', 'cex': {'culture': culture, 'kind': kind, 'q': q},
                            'detail': 'span contract: %r -> entity %r at %d..%d (slice %r)' % (q, text, a, b, q[max(a, 0):b + 1]), 'queries': n}
            sp = sorted((a, b, t) for (t, a, b) in ents)
            for i in range(len(sp)):
                for j in range(i + 1, len(sp)):
                    x, y = sp[i], sp[j]
                    if x[0] <= y[1] and y[0] <= x[1]:
                        pair, riap = ((x[0], x[1]), (y[0], y[1])), ((y[0], y[1]), (x[0], x[1]))
                        if pair in C.F36 or riap in C.F36:
                            continue
                        if any((p1[0] >= x[0] and p1[1] <= x[1] and p2[0] >= y[0] and p2[1] <= y[1]) or (p1[0] >= y[0] and p1[1] <= y[1] and p2[0] >= x[0] and p2[1] <= x[1]) for (p1, p2) in C.F3A):
                            continue
                        return {'state': 'counterexample', 'cex': {'culture': culture, 'kind': kind, 'q': q}, 'detail': 'overlap: %r -> %r and %r' % (q, x, y), 'queries': n}
    return {'state': 'discharged', 'detail': '%d corpus queries (%s): span contract and disjointness hold' % (n, culture), 'queries': n, 'sample': {'queries': n}}


def span_scan__replay(slice_, cex):
    r = span_scan(slice_, 0)
    return {'reproduced': r['state'] == 'counterexample', 'detail': r['detail']}
