"""C01 O1.1 -- QueryProcessor.preprocess is a length-preserving, character-wise map (CrossHair, symbolic str)."""
from harness.common import *  # noqa
from recognizers_text.utilities import QueryProcessor

env.assert_repo(QueryProcessor)
LEN = sl('len', 1)
FULL = {'０': '0', '１': '1', '２': '2', '３': '3', '４': '4', '５': '5', '６': '6', '７': '7', '８': '8', '９': '9', '：': ':', '－': '-',
        '，': ',', '／': '/', 'Ｇ': 'G', 'Ｍ': 'M', 'Ｔ': 'T', 'Ｋ': 'K', 'ｋ': 'k', '．': '.', '（': '(', '）': ')', '％': '%', '、': ','}


RANGES = {'ascii': (0, 0x80), 'bmp': (0x80, 0x10000), 'astral': (0x10000, 0x110000), 'any': (0, 0x110000)}
R0, R1 = RANGES[sl('c0', 'any')], RANGES[sl('c1', 'any')]


def h_preprocess(s: str):
    assert len(s) == LEN
    assert R0[0] <= ord(s[0]) < R0[1] and (LEN < 2 or R1[0] <= ord(s[1]) < R1[1])
    out = QueryProcessor.preprocess(s, False)
    assert len(out) == len(s)
    for i in range(len(s)):
        c = FULL.get(s[i], s[i])
        assert out[i] == c or out[i] == c.lower()


def h_preprocess_cs(s: str):
    """case-sensitive variant used by the number and unit models (unit tokens such as kB keep their case)"""
    assert len(s) == LEN
    out = QueryProcessor.preprocess(s, True)
    assert len(out) == len(s)


def audit_all_code_points(slice_, timeout):
    """concrete audit (not a solver verdict): every single code point keeps length 1 through preprocess, both modes"""
    bad = []
    n = 0
    for cp in range(0x110000):
        if 0xD800 <= cp <= 0xDFFF:
            continue
        c = chr(cp)
        n += 1
        for cs in (False, True):
            o = QueryProcessor.preprocess('1' + c + '2', cs)
            if len(o) != 3 or o[0] != '1' or o[2] != '2':
                bad.append((cp, cs))
    if bad:
        return {'state': 'counterexample', 'detail': 'preprocess changes the length for code points %r' % bad[:5], 'cex': {'cp': bad[0][0], 'case_sensitive': bad[0][1]}, 'queries': n}
    return {'state': 'discharged', 'detail': 'audited %d code points x 2 modes' % n, 'queries': n, 'sample': {'code_points': n}}


def audit_all_code_points__replay(slice_, cex):
    c = chr(cex['cp'])
    o = QueryProcessor.preprocess('1' + c + '2', cex['case_sensitive'])
    return {'reproduced': len(o) != 3, 'detail': 'preprocess(%r) -> %r' % ('1' + c + '2', o)}
