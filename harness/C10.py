"""C10 -- durations and explicit ranges: symx on the real BaseDurationParser / BaseDatePeriodParser (two time points) /
luis_time_span / generate_date_period_timex_str with symbolic amounts and endpoints."""
from harness.dtcommon import *  # noqa
from lib.symx import assume
from recognizers_text.extractor import ExtractResult
from recognizers_text.parser import ParseResult
from recognizers_date_time.date_time.parsers import DateTimeParseResult
from recognizers_date_time.date_time.utilities import DateTimeResolutionResult, DateTimeOptions, TimexUtil
from recognizers_date_time.date_time.english.merged_parser_config import EnglishMergedParserConfiguration
from recognizers_date_time.date_time.base_merged import BaseMergedParser

digits.FREE_WIDTH[0] = True
MP = BaseMergedParser(EnglishMergedParserConfiguration(CFG), DateTimeOptions.NONE)
DUP = CFG.duration_parser
DPP = CFG.date_period_parser
BASE_DUR = sys.modules[DT + 'base_duration']
RT_UTIL = sys.modules['recognizers_text.utilities']
env.assert_repo(BASE_DUR, RT_UTIL, type(DUP), type(DPP))
RT_UTIL.int = digits.unint


def _exact_float(x, *a):
    """float() of an integer amount: exact below 2**53, so the symbolic integer itself stands for the double (bound: N x unit <= 5000 x 31536000 < 2**53)"""
    if type(x).__name__ == 'SymInt':
        return x
    return float(x, *a)


BASE_DUR.float = _exact_float
UNITWORD = sl('unit', 'days')
SECONDS = {'seconds': 1, 'second': 1, 'minutes': 60, 'minute': 60, 'hours': 3600, 'hour': 3600, 'days': 86400, 'day': 86400, 'weeks': 7 * 86400, 'week': 7 * 86400,
           'months': 30 * 86400, 'month': 30 * 86400, 'years': 365 * 86400, 'year': 365 * 86400}
LETTER = {'second': 'S', 'minute': 'M', 'hour': 'H', 'day': 'D', 'week': 'W', 'month': 'M', 'year': 'Y'}


class _NumExtractor:
    def extract(self, source):
        er = ExtractResult()
        er.start, er.length, er.text, er.type = 0, 1, source[0:1], 'builtin.num'
        return [er]


class _NumParser:
    value = None

    def parse(self, er):
        pr = ParseResult(er)
        pr.value = self.value
        pr.resolution_str = ''
        return pr


DUP.config._cardinal_extractor = _NumExtractor()
DUP.config._number_parser = _NumParser()


def h_duration(n: int):
    assert 1 <= n <= 5000
    digits.reset()
    _NumParser.value = n
    text = '# ' + UNITWORD               # '#' stands for the numeral (span 0..1), then the real unit word
    er = ExtractResult()
    er.start, er.length, er.text, er.type = 0, len(text), text, Constants.SYS_DATETIME_DURATION
    pr = DUP.parse(er, datetime(2000, 1, 1))
    assert pr.value is not None and pr.value.success
    base = UNITWORD.rstrip('s')
    want_tx = ['P' + ('T' if base in ('second', 'minute', 'hour') else ''), (n, 0), LETTER[base]]
    assert digits.same(digits.decode(pr.timex_str), want_tx)
    out = MP.set_parse_result(pr, False, False, False)
    vals = out.value['values']
    assert out.type == 'datetimeV2.duration' and len(vals) == 1 and vals[0]['type'] == 'duration'
    assert digits.same(digits.decode(vals[0]['timex']), want_tx)
    assert digits.same(digits.decode(vals[0]['value']), [(n * SECONDS[UNITWORD], 0)])


def t_duration(n: int):
    assert 1 <= n <= 5000
    digits.reset()
    _NumParser.value = n
    text = '# ' + UNITWORD
    er = ExtractResult()
    er.start, er.length, er.text, er.type = 0, len(text), text, Constants.SYS_DATETIME_DURATION
    assert DUP.parse(er, datetime(2000, 1, 1)).value is None


# ---- PTnHnMnS of a time span ----------------------------------------------------------------------------------------
def h_time_span(o: int, h1: int, m1: int, s1: int, dd: int, h2: int, m2: int, s2: int):
    assert 711858 <= o <= 763363 and 0 <= h1 <= 23 and 0 <= m1 <= 59 and 0 <= s1 <= 59 and 0 <= dd <= 2 and 0 <= h2 <= 23 and 0 <= m2 <= 59 and 0 <= s2 <= 59
    digits.reset()
    a = datetime.fromordinal(o) + timedelta(hours=h1, minutes=m1, seconds=s1)
    b = datetime.fromordinal(o) + timedelta(days=dd, hours=h2, minutes=m2, seconds=s2)
    assume(a < b)
    total = (b - a).total_seconds()
    tx = digits.decode(DateTimeFormatUtil.luis_time_span(a, b))
    # PT[nH][nM][nS]: the components add up to end - begin
    assert tx[0].startswith('PT')
    secs = 0
    i = 0
    items = [tx[0][2:]] + tx[1:] if len(tx[0]) > 2 else tx[1:]
    for k in range(0, len(items), 2):
        num, unit = items[k], items[k + 1]
        assert not isinstance(num, str) and unit in ('H', 'M', 'S')
        secs = secs + num[0] * {'H': 3600, 'M': 60, 'S': 1}[unit]
    assert secs == total


# ---- explicit date range: two absolute endpoints ---------------------------------------------------------------------
class _TwoDates:
    def extract(self, source, reference=None):
        out = []
        for (s, l) in ((5, 4), (13, 4)):
            er = ExtractResult()
            er.start, er.length, er.text, er.type = s, l, source[s:s + l], Constants.SYS_DATETIME_DATE
            out.append(er)
        return out


class _DateParser:
    vals = {}

    def parse(self, er, reference=None):
        pr = DateTimeParseResult(er)
        dt = self.vals[er.start]
        v = DateTimeResolutionResult()
        v.success = True
        v.future_value = v.past_value = dt
        v.timex = DateTimeFormatUtil.luis_date_from_datetime(dt)
        v.future_resolution = {'date': DateTimeFormatUtil.format_date(dt)}
        v.past_resolution = {'date': DateTimeFormatUtil.format_date(dt)}
        pr.value, pr.timex_str = v, v.timex
        return pr


DPP.config._date_extractor = _TwoDates()
DPP.config._date_parser = _DateParser()
RANGE_TEXT = 'from aaaa to bbbb'


def h_two_points(o1: int, gap: int):
    assert 693596 <= o1 <= 766644 - 4000 and 1 <= gap <= 4000          # 1900-01-01 .. ; B = A + gap days
    digits.reset()
    a = datetime.fromordinal(o1)
    b = datetime.fromordinal(o1 + gap)
    _DateParser.vals = {5: a, 13: b}
    er = ExtractResult()
    er.start, er.length, er.text, er.type = 0, len(RANGE_TEXT), RANGE_TEXT, Constants.SYS_DATETIME_DATEPERIOD
    pr = DPP.parse(er, datetime(2000, 6, 15))
    assert pr.value is not None and pr.value.success
    out = MP.set_parse_result(pr, False, False, False)
    vals = out.value['values']
    assert out.type == 'datetimeV2.daterange' and len(vals) == 1
    v = vals[0]
    assert digits.ymd(v['start']) == (a.year, a.month, a.day)          # exactly the stated endpoints
    assert digits.ymd(v['end']) == (b.year, b.month, b.day)
    tx = digits.decode(v['timex'])
    # (start,end,PnD): start and end equal the resolved values and end - start equals the duration
    want = ['(', (a.year, 4), '-', (a.month, 2), '-', (a.day, 2), ',', (b.year, 4), '-', (b.month, 2), '-', (b.day, 2), ',P', (gap, 0), 'D)']
    assert digits.same(tx, want)


# ---- "from <time> to <time>": BaseTimePeriodParser.merge_two_time_points ------------------------------------------------------------
TPP = CFG.time_period_parser
AMPM1, AMPM2 = sl('ampm1', 0), sl('ampm2', 0)      # the endpoint was written without am/pm (the time parser marks it 'ampm')


class _TwoTimes:
    def extract(self, source, reference=None):
        a, b = ExtractResult(), ExtractResult()
        a.start, a.length, a.text, a.type = 5, 2, 'T1', Constants.SYS_DATETIME_TIME
        b.start, b.length, b.text, b.type = 11, 2, 'T2', Constants.SYS_DATETIME_TIME
        return [a, b]


class _TimeParser:
    """stands for BaseTimeParser.parse (C07 decides what it returns): a time on the reference date, its TIMEX, the 'ampm' comment"""
    times = None

    def parse(self, er, reference=None):
        h, m, amb = self.times[0 if er.text == 'T1' else 1]
        val = DateTimeResolutionResult()
        val.future_value = val.past_value = datetime(reference.year, reference.month, reference.day, h, m, 0)
        val.comment = 'ampm' if amb else ''
        val.success = True
        pr = DateTimeParseResult(er)
        pr.value = val
        pr.timex_str = 'T' + digits.ph(h, 2) + ':' + digits.ph(m, 2)
        return pr


def _tp_setup(h1, m1, h2, m2):
    TPP.config._time_extractor = _TwoTimes()
    tp = _TimeParser()
    tp.times = [(h1, m1, AMPM1), (h2, m2, AMPM2)]
    TPP.config._time_parser = tp


def h_time_points(ry: int, rmo: int, rd: int, h1: int, m1: int, h2: int, m2: int):
    """two clock times as the time parser delivers them (explicit am/pm: any h:m; without am/pm: hour 1..12 and the 'ampm' mark):
    the range is self-consistent -- start < end <= start + 24 h, both on the clock times given (an unmarked endpoint may move by
    12 h), and the duration written in the TIMEX equals end - start"""
    assert 1950 <= ry <= 2090 and 1 <= rmo <= 12 and 1 <= rd <= 28
    assert 0 <= h1 <= 23 and 0 <= m1 <= 59 and 0 <= h2 <= 23 and 0 <= m2 <= 59
    digits.reset()
    assume((not AMPM1 or 1 <= h1 <= 12) and (not AMPM2 or 1 <= h2 <= 12))
    assume(not (h1 == h2 and m1 == m2) or AMPM2)            # "5pm to 5pm" (empty range) is not a range
    _tp_setup(h1, m1, h2, m2)
    ref = datetime(ry, rmo, rd, 9, 30, 0)
    r = TPP.merge_two_time_points('from T1 to T2', ref)
    assert r.success is True
    b, e = r.future_value.start, r.future_value.end
    assert r.past_value.start == b and r.past_value.end == e
    day0 = datetime(ry, rmo, rd, 0, 0, 0)
    bs = (b - day0).total_seconds()
    es = (e - day0).total_seconds()
    t1, t2 = h1 * 3600 + m1 * 60, h2 * 3600 + m2 * 60
    assert bs == t1 or (AMPM1 and bs == t1 + 12 * 3600)
    assert es % 86400 == t2 or (AMPM2 and es % 86400 == (t2 + 12 * 3600) % 86400)
    assert bs < es <= bs + 86400
    # the duration written in the TIMEX
    tx = digits.decode(r.timex)
    j = digits._join(digits._norm(tx)) if hasattr(digits, '_join') else tx
    dur = es - bs
    hh, mm = dur // 3600, dur % 3600 // 60
    want_tail = [',PT']
    tail = _after_last_comma(j)
    got_h, got_m = _hm_of(tail)
    assert got_h == hh and got_m == mm
    # "start and end equal the resolved values": the clock times written in the TIMEX are the resolved start and end
    p1, p2 = _clock_pieces(j)
    assert p1[0] * 3600 + p1[1] * 60 == bs % 86400 or (p1[0] == 24 and bs % 86400 == p1[1] * 60), ('TIMEX start differs from the resolved start', r.timex)
    assert (p2[0] * 3600 + p2[1] * 60) % 86400 == es % 86400, ('TIMEX end differs from the resolved end', r.timex)


def _clock_pieces(items):
    """'(' 'T' hh [':' mm [':' ss]] ',' 'T' hh [':' mm ...] ',' ... -> [(h, m), (h, m)]"""
    pieces, cur = [], []
    for it in items:
        if isinstance(it, str):
            for ch in it:
                if ch == ',':
                    pieces.append(cur)
                    cur = []
                elif ch not in '()':
                    cur.append(ch)
        else:
            cur.append(it)
    out = []
    for pc in pieces[:2]:
        assert pc and pc[0] == 'T' and len(pc) >= 2 and not isinstance(pc[1], str), ('clock time expected in the TIMEX', pc)
        h = pc[1][0]
        m = 0
        if len(pc) >= 4 and pc[2] == ':' and not isinstance(pc[3], str):
            m = pc[3][0]
        out.append((h, m))
    assert len(out) == 2
    return out


def _after_last_comma(items):
    """the decoded items after the second comma of '(A,B,PT..)'"""
    out, commas = [], 0
    for it in items:
        if isinstance(it, str):
            for ch in it:
                if ch == ',':
                    commas += 1
                    out = []
                else:
                    out.append(ch)
        else:
            out.append(it)
    return out


def _hm_of(tail):
    """'PT' [n 'H'] [n 'M'] ')' -> (hours, minutes), absent parts = 0"""
    assert tail[:2] == ['P', 'T'] and tail[-1] == ')'
    body = tail[2:-1]
    h = m = 0
    i = 0
    while i < len(body):
        it = body[i]
        assert not isinstance(it, str), ('number expected', body)
        assert i + 1 < len(body) and body[i + 1] in ('H', 'M'), ('unit expected', body)
        if body[i + 1] == 'H':
            h = it[0]
        else:
            m = it[0]
        i += 2
    assert len(body) >= 2, 'empty duration'
    return h, m


def t_time_points(ry: int, rmo: int, rd: int, h1: int, m1: int, h2: int, m2: int):
    assert 1950 <= ry <= 2090 and 1 <= rmo <= 12 and 1 <= rd <= 28
    assert 0 <= h1 <= 23 and 0 <= m1 <= 59 and 0 <= h2 <= 23 and 0 <= m2 <= 59
    digits.reset()
    assume((not AMPM1 or 1 <= h1 <= 12) and (not AMPM2 or 1 <= h2 <= 12))
    _tp_setup(h1, m1, h2, m2)
    r = TPP.merge_two_time_points('from T1 to T2', datetime(ry, rmo, rd, 9, 30, 0))
    assert r.success is False
