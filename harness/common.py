"""Preamble shared by all harness modules: repo paths, slice parameters, tiny helpers.

Harness functions follow CrossHair's "asserts" convention: the leading `assert`s are preconditions
(bounds of the symbolic inputs, the slice of the input space this process covers, excluded
known-finding regions); every later assertion -- and any exception escaping the real code -- is
the property.
"""
import json
import os

from lib import env

env.setup_paths()
SL = json.loads(os.environ.get('VERIF_SLICE', '{}'))


def sl(key, default=None):
    return SL.get(key, default)


def is_leap(y):
    return y % 4 == 0 and (y % 100 != 0 or y % 400 == 0)


def dim(y, m):
    """days in month -- independent oracle (no datetime / calendar)"""
    if m == 2:
        return 29 if is_leap(y) else 28
    if m in (4, 6, 9, 11):
        return 30
    return 31


def ymd_ok(y, m, d):
    return 1 <= m <= 12 and 1 <= d <= dim(y, m)


def parse_ymd(s):
    """'YYYY-MM-DD' -> (y, m, d); asserts the exact shape (works on CrossHair symbolic strings)."""
    assert len(s) == 10 and s[4] == '-' and s[7] == '-', s
    return int(s[0:4]), int(s[5:7]), int(s[8:10])


def days_from_civil(y, m, d):
    """Proleptic Gregorian day number (independent oracle, integer arithmetic only)."""
    y2 = y - 1 if m <= 2 else y
    era = y2 // 400
    yoe = y2 - era * 400
    mp = (m + 9) % 12
    doy = (153 * mp + 2) // 5 + d - 1
    doe = yoe * 365 + yoe // 4 - yoe // 100 + doy
    return era * 146097 + doe - 719468


def iso_weekday(y, m, d):
    """1 = Monday .. 7 = Sunday (1970-01-01 was a Thursday)."""
    return (days_from_civil(y, m, d) + 3) % 7 + 1
