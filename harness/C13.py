"""C13 -- IP addresses and GUIDs: the real patterns (read from /repo at run time) as z3 regular expressions, compared
with oracle languages built independently from the address grammars; solver-generated witnesses are then pushed
through the public recogniser (composition check); the canonicaliser drop_leading_zeros is checked by CrossHair."""
import re
import time

import z3

from harness.common import *  # noqa
from lib import rx2smt
from recognizers_sequence.resources.base_ip import BaseIp
from recognizers_sequence.resources.base_GUID import BaseGUID
from recognizers_sequence.sequence.parsers import BaseIpParser

env.assert_repo(BaseIp, BaseGUID, BaseIpParser)
DIG = z3.Range('0', '9')


def lit(s):
    return z3.Re(z3.StringVal(s))


def ipv4_oracle():
    """dotted quad; an octet is a decimal rendering of 0..255 with at most three characters (leading zeros allowed up to width 3)"""
    octs = set()
    for v in range(256):
        s = str(v)
        for w in range(len(s), 4):
            octs.add(s.rjust(w, '0'))
    o = z3.Union(*[lit(x) for x in sorted(octs)])
    return z3.Concat(o, lit('.'), o, lit('.'), o, lit('.'), o)


def hextet():
    return z3.Loop(z3.Union(z3.Range('0', '9'), z3.Range('a', 'f'), z3.Range('A', 'F')), 1, 4)


def ipv6_oracle():
    """RFC 4291 text form: eight hextets, or '::' standing for one or more groups (k hextets before, j after, k + j <= 7)"""
    h = hextet()
    alts = [z3.Concat(*([h, lit(':')] * 7 + [h]))]
    for k in range(0, 8):
        for j in range(0, 8 - k):
            if k + j > 7:
                continue
            parts = []
            for i in range(k):
                parts += [h, lit(':')] if i < k - 1 else [h]
            parts.append(lit('::'))
            for i in range(j):
                parts += [h] if i == 0 else [lit(':'), h]
            alts.append(z3.Concat(*parts) if len(parts) > 1 else parts[0])
    return z3.Union(*alts)


def guid_oracle():
    hx = z3.Union(z3.Range('0', '9'), z3.Range('a', 'f'), z3.Range('A', 'F'))
    def n(k):
        return z3.Loop(hx, k, k)
    core = z3.Union(z3.Concat(n(8), lit('-'), n(4), lit('-'), n(4), lit('-'), n(4), lit('-'), n(12)), n(32))
    pct7 = z3.Concat(lit('%7'), z3.Union(lit('b'), lit('B')))
    pct7d = z3.Concat(lit('%7'), z3.Union(lit('d'), lit('D')))
    urn = z3.Concat(*[z3.Union(lit(c.lower()), lit(c.upper())) if c.isalpha() else lit(c) for c in 'urn:uuid:'])
    x = z3.Union(lit('x'), lit('X'))
    return z3.Union(core, z3.Concat(lit('{'), core, lit('}')), z3.Concat(urn, core), z3.Concat(pct7, core, pct7d), z3.Concat(x, lit("'"), core, lit("'")))


def equivalence(slice_, timeout):
    which = slice_['lang']
    t = time.time()
    if which == 'ipv4':
        real, edges = rx2smt.translate(BaseIp.Ipv4Regex)
        oracle = ipv4_oracle()
    elif which == 'ipv6':
        real, edges = rx2smt.translate(BaseIp.Ipv6Regex)
        oracle = ipv6_oracle()
    else:
        real, edges = rx2smt.translate(BaseGUID.GUIDRegex)
        oracle = guid_oracle()
    # encoder validation (not the verdict): solver-generated members / non-members agree with the real regex engine
    import regex
    pat = regex.compile(BaseIp.Ipv4Regex if which == 'ipv4' else BaseIp.Ipv6Regex if which == 'ipv6' else BaseGUID.GUIDRegex, regex.I | regex.S)
    val = 0
    for w in rx2smt.members(real, 12):
        val += 1
        if not pat.fullmatch(w):
            return {'state': 'error', 'detail': 'encoder validation failed: %r is in the translated language but the real engine does not match it' % w}
    r, w = rx2smt.equivalent(real, oracle, int(timeout * 1000))
    q = 1
    if r == 'unsat':
        return {'state': 'discharged', 'detail': 'L(real core) == L(oracle), unbounded length', 'queries': q, 'solver_s': round(time.time() - t, 2),
                'sample': {'edges': repr(edges)[:200], 'validated_members': val}}
    if r == 'sat':
        return {'state': 'counterexample', 'cex': {'witness': w, 'lang': which}, 'detail': 'string %r is in exactly one of real/oracle' % w, 'queries': q,
                'solver_s': round(time.time() - t, 2)}
    return {'state': 'inconclusive', 'detail': 'z3 returned unknown', 'queries': q, 'solver_s': round(time.time() - t, 2)}


def _valid_ipv4(s):
    p = s.split('.')
    return len(p) == 4 and all(1 <= len(x) <= 3 and x.isdigit() and x.isascii() and int(x) <= 255 for x in p)


def _valid_ipv6(s):
    hx = re.compile(r'^[0-9a-fA-F]{1,4}$')
    if s.count('::') > 1 or ':::' in s:
        return False
    if '::' in s:
        a, b = s.split('::')
        ga = a.split(':') if a else []
        gb = b.split(':') if b else []
        return len(ga) + len(gb) <= 7 and all(hx.match(g) for g in ga + gb)
    g = s.split(':')
    return len(g) == 8 and all(hx.match(x) for x in g)


def _valid_guid(s):
    core = r'([0-9a-fA-F]{8}(-[0-9a-fA-F]{4}){3}-[0-9a-fA-F]{12}|[0-9a-fA-F]{32})'
    return any(re.fullmatch(p, s, re.I) for p in (core, r'\{' + core + r'\}', 'urn:uuid:' + core, '%7b' + core + '%7d', "x'" + core + "'"))


def equivalence__replay(slice_, cex):
    """a string in exactly one of the two languages: decide with the real engine and an independent validity predicate"""
    import regex
    w, which = cex['witness'], cex['lang']
    pat = regex.compile(BaseIp.Ipv4Regex if which == 'ipv4' else BaseIp.Ipv6Regex if which == 'ipv6' else BaseGUID.GUIDRegex, regex.I | regex.S)
    matched = pat.search('see ' + w + ' here')
    full = bool(matched) and matched.group() == w
    valid = {'ipv4': _valid_ipv4, 'ipv6': _valid_ipv6, 'guid': _valid_guid}[which](w)
    return {'reproduced': full != valid, 'detail': 'witness %r: real pattern matches it as a whole token: %s; valid per grammar: %s' % (w, full, valid)}


def witnesses_through_api(slice_, timeout):
    """composition check: solver-generated members of the oracle language, as their own token in a carrier sentence, must be
    recognised with the exact span and a value denoting the same address; near-miss strings must not be reported as a whole"""
    from recognizers_sequence import recognize_ip_address, recognize_guid
    which = slice_['lang']
    n = slice_.get('n', 40)
    oracle = {'ipv4': ipv4_oracle, 'ipv6': ipv6_oracle, 'guid': guid_oracle}[which]()
    ws = rx2smt.members(oracle, n)
    ws += {'ipv4': ['0.0.0.0', '255.255.255.255', '9.10.99.100', '199.200.249.250', '001.002.003.004', '192.168.000.1'],
           'ipv6': ['::', '::1', '1::', 'fe80::1', '2001:db8:0:0:0:0:2:1', '1:2:3:4:5:6:7:8', 'ABCD:EF01:2345:6789:ABCD:EF01:2345:6789', '1:2:3:4:5:6:7::'],
           'guid': ['123e4567-e89b-12d3-a456-426614174000', '{123E4567-E89B-12D3-A456-426614174000}', '123e4567e89b12d3a456426614174000']}[which]
    rec = recognize_guid if which == 'guid' else recognize_ip_address
    bad = []
    for w in ws:
        q = 'see ' + w + ' here'
        rs = [r for r in rec(q, 'en-us')]
        ok = len(rs) == 1 and rs[0].start == 4 and rs[0].end == 4 + len(w) - 1 and rs[0].text.lower() == w.lower()
        if ok and which == 'ipv4':
            ok = [int(x) for x in rs[0].resolution['value'].split('.')] == [int(x) for x in w.split('.')]
        if not ok:
            bad.append((w, [(r.text, r.start, r.end, r.resolution) for r in rs]))
    miss = {'ipv4': ['256.1.1.1', '1.2.3.999', '1.2.3.4.5', '1.2.3', '300.300.300.300'],
            'ipv6': ['1:2:3:4:5:6:7:8:9', '12345::1', '1::2::3'],
            'guid': ['123e4567-e89b-12d3-a456-42661417400', 'g23e4567-e89b-12d3-a456-426614174000']}[which]
    for w in miss:
        q = 'see ' + w + ' here'
        for r in rec(q, 'en-us'):
            if r.start == 4 and r.end == 4 + len(w) - 1:
                bad.append((w, 'invalid string reported as a whole'))
    if bad:
        return {'state': 'counterexample', 'cex': {'lang': which, 'witness': bad[0][0]}, 'detail': 'API disagrees on %r: %r' % bad[0], 'queries': len(ws) + len(miss)}
    return {'state': 'discharged', 'detail': '%d solver-generated/boundary members and %d near-misses agree through the API' % (len(ws), len(miss)),
            'queries': len(ws) + len(miss), 'sample': {'members': ws[:5]}}


def witnesses_through_api__replay(slice_, cex):
    r = witnesses_through_api(dict(slice_, n=5), 0)
    return {'reproduced': r['state'] == 'counterexample', 'detail': r['detail']}


# ---- canonical value: drop_leading_zeros (CrossHair, symbolic digit strings) ---------------------------------------------
def h_drop_leading_zeros(a: str, b: str):
    assert 1 <= len(a) <= 3 and 1 <= len(b) <= 3 and all(c in '0123456789' for c in a) and all(c in '0123456789' for c in b)
    out = BaseIpParser.drop_leading_zeros(a + '.' + b + '.10.007')
    parts = out.split('.')
    assert len(parts) == 4 and parts[2] == '10' and parts[3] == '7'
    for src, got in ((a, parts[0]), (b, parts[1])):
        assert int(got) == int(src)                       # same number
        assert got == '0' or not got.startswith('0')      # no superfluous zero


POS = sl('pos', 3)
GLEN = sl('glen', 4)
SEP = sl('sep', '.')


def h_drop_zeros_group(g: str):
    """one symbolic group at position POS (first / inner / last) of a 4-group address with separator SEP: only that group
    changes, to the same number without superfluous zeros ("0" for an all-zero group); the separators stay"""
    assert 1 <= len(g) <= GLEN and all(c in '0123456789abcdef' for c in g)
    assert SEP == ':' or (len(g) <= 3 and all(c in '0123456789' for c in g))
    groups = ['10', '007', 'a1' if SEP == ':' else '21', '0']
    groups[POS] = g
    out = BaseIpParser.drop_leading_zeros(SEP.join(groups))
    parts = out.split(SEP)
    assert len(parts) == 4
    want = ['10', '7', 'a1' if SEP == ':' else '21', '0']
    for i in range(4):
        if i != POS:
            assert parts[i] == want[i]
    got = parts[POS]
    # same number, canonical: got is g without a prefix of zeros; no zero is left in front unless the group is zero
    assert got != '' and (got == '0' or got[0] != '0')
    assert g.endswith(got) and all(c == '0' for c in g[:len(g) - len(got)])
