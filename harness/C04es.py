"""C04 (Spanish cardinals) -- the real BaseNumberParser.__get_int_value with the Spanish configuration on token lists whose number
words are placeholders with symbolic values.  Spanish grammar used by the shapes (an independent description of the standard
spelling): 1..29 are single words; 30..90 tens word [y unit]; 100 = cien, otherwise a hundreds word (ciento, doscientos ...)
followed by the rest; thousands = [2..999] mil; millions = un millón | [2..999 999] millones; 10^12 = un billón | [..] billones."""
import sys

from harness.common import *  # noqa
from harness import symdec
from lib.symx import assume
from recognizers_number.number.parsers import BaseNumberParser
from recognizers_number.number.spanish.parsers import SpanishNumberParserConfiguration
from recognizers_number.culture import CultureInfo

PARSERS = sys.modules['recognizers_number.number.parsers']
env.assert_repo(PARSERS, SpanishNumberParserConfiguration)
ENGINE = os.environ.get('VERIF_ENGINE', 'native')
PARSER = BaseNumberParser(SpanishNumberParserConfiguration(CultureInfo('es-es')))
PARSER.config._cardinal_number_map = dict(PARSER.config.cardinal_number_map)
GET_INT = PARSER._BaseNumberParser__get_int_value
if ENGINE == 'sx':
    PARSERS.Decimal = symdec.SymDec

U = ['cero', 'uno', 'dos', 'tres', 'cuatro', 'cinco', 'seis', 'siete', 'ocho', 'nueve', 'diez', 'once', 'doce', 'trece', 'catorce', 'quince', 'dieciséis', 'diecisiete',
     'dieciocho', 'diecinueve', 'veinte', 'veintiuno', 'veintidós', 'veintitrés', 'veinticuatro', 'veinticinco', 'veintiséis', 'veintisiete', 'veintiocho', 'veintinueve']
T = ['', '', '', 'treinta', 'cuarenta', 'cincuenta', 'sesenta', 'setenta', 'ochenta', 'noventa']
H = ['', 'ciento', 'doscientos', 'trescientos', 'cuatrocientos', 'quinientos', 'seiscientos', 'setecientos', 'ochocientos', 'novecientos']
# below-1000 patterns: w = word 1..29, d = tens, dyu = tens y unit, C = cien, c.. = hundreds word + rest
BELOW = ['w', 'd', 'dyu', 'C', 'c', 'cw', 'cd', 'cdyu']
SHAPES = sl('shapes', [[['u', 'cdyu']]])
# a shape is a list of [level, pattern(s)]: level 'B' (x 10^12), 'M' (x 10^6), 'K' (x 1000), 'u' (units); for B and M the pattern may be
# '1' (un billón / un millón) or a below-1000 pattern or 'K:<p1>+<p2>' (thousands inside the millions: <p1> mil <p2>); for K: '1' = bare mil
KIND_RANGE = {'w': (1, 29), 'd': (3, 9), 'u': (1, 9), 'c': (1, 9)}


def below_items(pat):
    """-> list of ('num', kind) / ('word', text)"""
    if pat == 'C':
        return [('word', 'cien')]
    out = []
    rest = pat
    if rest.startswith('c'):
        out.append(('num', 'c'))
        rest = rest[1:]
    if rest == 'w':
        out.append(('num', 'w'))
    elif rest == 'd':
        out.append(('num', 'd'))
    elif rest == 'dyu':
        out += [('num', 'd'), ('word', 'y'), ('num', 'u')]
    return out


def shape_items(shape):
    items = []
    for level, pat in shape:
        if level == 'u':
            items += [('grp', below_items(pat), 1)]
        elif level == 'K':
            items += [('grp', [] if pat == '1' else below_items(pat), 1000), ('word', 'mil')]
        else:
            mult = 10 ** 12 if level == 'B' else 10 ** 6
            sing, plur = ('billón', 'billones') if level == 'B' else ('millón', 'millones')
            if pat == '1':
                items += [('grp', [('word', 'un')], mult), ('word', sing)]
            elif pat.startswith('K:'):
                p1, p2 = pat[2:].split('+')
                items += [('grp', [] if p1 == '1' else below_items(p1), 1000 * mult), ('word', 'mil')]
                if p2:
                    items += [('grp', below_items(p2), mult)]
                items += [('word', plur)]
            else:
                items += [('grp', below_items(pat), mult), ('word', plur)]
    return items


def instantiate(shape, vals):
    toks, total, vi = [], 0, 0
    cm = PARSER.config._cardinal_number_map
    k = 0
    for it in shape_items(shape):
        if it[0] == 'word':
            toks.append(it[1])
            continue
        _, sub, mult = it
        gval = 0
        if not sub:
            gval = 1                       # bare "mil"
        for s in sub:
            if s[0] == 'word':
                toks.append(s[1])
                if s[1] == 'cien':
                    gval = gval + 100
                elif s[1] == 'un':
                    gval = gval + 1
                continue
            kind = s[1]
            v = vals[vi]
            vi += 1
            lo, hi = KIND_RANGE[kind]
            assume(lo <= v and v <= hi)
            val = v * 10 if kind == 'd' else (v * 100 if kind == 'c' else v)
            gval = gval + val
            key = '«n%d»' % k
            k += 1
            cm[key] = val
            toks.append(key)
        total = total + gval * mult
    return toks, total, vi


def h_int_value(si: int, v0: int, v1: int, v2: int, v3: int, v4: int, v5: int, v6: int, v7: int, v8: int, v9: int, v10: int, v11: int, v12: int, v13: int, v14: int):
    assume(0 <= si < len(SHAPES))
    shape = [tuple(x) for x in SHAPES[int(si)]]
    vals = [v0, v1, v2, v3, v4, v5, v6, v7, v8, v9, v10, v11, v12, v13, v14]
    toks, want, used = instantiate(shape, vals)
    assume(all(v == 0 for v in vals[used:]))
    got = GET_INT(toks)
    if ENGINE == 'sx':
        assert isinstance(got, symdec.SymDec) and got.exp == 0
        assert got.num == want, (shape,)
    else:
        assert int(got) == want, (shape, toks, got, want)


def t_int_value(si: int, v0: int, v1: int, v2: int, v3: int, v4: int, v5: int, v6: int, v7: int, v8: int, v9: int, v10: int, v11: int, v12: int, v13: int, v14: int):
    assume(0 <= si < len(SHAPES))
    shape = [tuple(x) for x in SHAPES[int(si)]]
    vals = [v0, v1, v2, v3, v4, v5, v6, v7, v8, v9, v10, v11, v12, v13, v14]
    toks, want, used = instantiate(shape, vals)
    assume(all(v == 0 for v in vals[used:]))
    got = GET_INT(toks)
    assert (got.num if ENGINE == 'sx' else int(got)) == 0


def validate_shapes(slice_, timeout):
    """validation (not a verdict): a concrete standard spelling of every shape is tokenised by the real text_number_regex into exactly
    the token list the harness assumes, the real kernel returns the number, and recognize_number returns it as one entity"""
    import random
    import regex
    from recognizers_number import recognize_number
    rnd = random.Random(7)
    n = 0
    for shape in SHAPES:
        shape = [tuple(x) for x in shape]
        words, expect = [], 0
        for it in shape_items(shape):
            if it[0] == 'word':
                words.append(it[1])
                continue
            _, sub, mult = it
            gval = 0 if sub else 1
            for s in sub:
                if s[0] == 'word':
                    words.append(s[1])
                    gval += {'cien': 100, 'un': 1}.get(s[1], 0)
                    continue
                k = rnd.randint(*KIND_RANGE[s[1]])
                if s[1] == 'w':
                    w, val = U[k], k
                    if mult > 1 and w.endswith('uno'):
                        w = (w[:-3] + 'ún') if k == 21 else 'un'       # apocope before mil / millones: veintiún mil, un ...
                    if mult > 1 and k == 1:
                        k, w, val = 2, 'dos', 2                          # "un mil" is not standard; "un millones" neither
                elif s[1] == 'u':
                    w, val = U[k], k
                    if mult > 1 and k == 1:
                        w = 'un'
                elif s[1] == 'd':
                    w, val = T[k], k * 10
                else:
                    w, val = H[k], k * 100
                words.append(w)
                gval += val
            expect += gval * mult
        text = ' '.join(words)
        toks = [m.group().lower() for m in regex.finditer(PARSER.text_number_regex, text)]
        if toks != words:
            return {'state': 'counterexample', 'cex': {'text': text}, 'detail': 'tokeniser gives %r for %r, the harness assumes %r' % (toks, text, words), 'queries': n}
        got = int(GET_INT(toks))
        if got != expect:
            return {'state': 'counterexample', 'cex': {'text': text}, 'detail': '%r -> %r, expected %r' % (text, got, expect), 'queries': n}
        in_f26 = any(lv in ('M', 'B') and pt.startswith('K:1+') for lv, pt in shape)     # known finding F26: "mil [..] millones" is not extracted as one entity
        if in_f26 != bool(sl('kf26', 0)):
            n += 1
            continue
        rs = recognize_number(text, 'es-es')
        if not (len(rs) == 1 and rs[0].text == text and rs[0].resolution['value'] == str(expect)):
            return {'state': 'counterexample', 'cex': {'text': text}, 'detail': 'recognize_number(%r) -> %r, expected %r' % (text, [(r.text, r.resolution['value']) for r in rs], expect), 'queries': n}
        n += 1
    return {'state': 'discharged', 'detail': '%d shapes validated on a concrete instance' % n, 'queries': n, 'sample': {'shapes': n}}


def validate_shapes__replay(slice_, cex):
    r = validate_shapes(slice_, 0)
    return {'reproduced': r['state'] == 'counterexample', 'detail': r['detail']}
