"""C15 (range resolver) -- TimexRangeResolver.evaluate on TIMEX strings whose date fields are symbolic-digit placeholders:
the real parsing (stdlib re), constraint expansion, day-by-day matching and formatting run natively under symx with the
symbolic calendar."""
import sys

from harness.common import *  # noqa
from harness import digits
from lib.symx import assume

ENGINE = os.environ.get('VERIF_ENGINE', 'native')
import datatypes_timex_expression as dte  # noqa: E402
from datatypes_timex_expression import Timex, TimexRangeResolver  # noqa: E402
from datatypes_timex_expression.timex_date_helpers import TimexDateHelpers  # noqa: E402

env.assert_repo(Timex, TimexRangeResolver)
P = 'datatypes_timex_expression.'
MODS = [sys.modules[P + n] for n in ('timex', 'timex_helpers', 'timex_range_resolver', 'timex_date_helpers', 'timex_resolver')]
TimexDateHelpers.fixed_format_number = staticmethod(digits.fixed)
sys.modules[P + 'timex'].int = digits.unint
sys.modules[P + 'timex_helpers'].int = digits.unint
digits.SEMANTIC_MERGE[0] = False
if ENGINE == 'sx':
    from lib import symx, symdate
    digits.install_symx_hook()
    symx.RESET_HOOKS.append(symdate.reset)
    symdate.NARROW[0] = True      # every date of these harnesses lies in 1951..2091
    from datetime import date as _rdate, datetime as _rdatetime, timedelta as _rtd
    for _m in MODS:
        for _n, _real, _sym in (('date', _rdate, symdate.sdatetime), ('datetime', _rdatetime, symdate.sdatetime), ('timedelta', _rtd, symdate.stimedelta)):
            if getattr(_m, _n, None) is _real:
                setattr(_m, _n, _sym)
    datetime, timedelta = symdate.sdatetime, symdate.stimedelta
else:
    from datetime import datetime, timedelta

NDAYS = sl('ndays', 14)
WD = sl('wd', 3)


ORD_LO, ORD_HI = 712223, 762998        # 1951-01-01 .. 2089-12-31


def h_weekday_in_range(o: int):
    """a single date-range constraint (start, P<n>D) and a weekday candidate: every such weekday of [start, start+n) and nothing else.
    The start date is given by its day number; the digits written into the constraint string are its year/month/day."""
    assert ORD_LO <= o <= ORD_HI
    digits.reset()
    start0 = datetime.fromordinal(o)
    y, mo, d = start0.year, start0.month, start0.day
    start_s = digits.ph(y, 4) + '-' + digits.ph(mo, 2) + '-' + digits.ph(d, 2)
    constraint = '(%s,XXXX-XX-XX,P%dD)' % (start_s, NDAYS)
    # (only the first and third component of a range TIMEX are parsed; the end is recomputed from start + duration)
    res = TimexRangeResolver.evaluate(['XXXX-WXX-%d' % WD], [constraint])
    start = datetime(y, mo, d)
    got = []
    for t in res:
        assert t.year is not None and t.month is not None and t.day_of_month is not None      # definite
        assert t.day_of_week is None
        dt = datetime(t.year, t.month, t.day_of_month)
        assert dt.isoweekday() == WD                                                           # an instance of the candidate
        assert timedelta(days=0) <= dt - start < timedelta(days=NDAYS)                         # inside the constraint
        got.append(dt)
    for i in range(len(got)):
        for j in range(i + 1, len(got)):
            assert got[i] != got[j]
    # completeness: every such day is returned
    for k in range(NDAYS):
        day = start + timedelta(days=k)
        if day.isoweekday() == WD:
            assert any(g == day for g in got)


def t_weekday_in_range(o: int):
    assert ORD_LO <= o <= ORD_HI
    digits.reset()
    start0 = datetime.fromordinal(o)
    y, mo, d = start0.year, start0.month, start0.day
    start_s = digits.ph(y, 4) + '-' + digits.ph(mo, 2) + '-' + digits.ph(d, 2)
    res = TimexRangeResolver.evaluate(['XXXX-WXX-%d' % WD], ['(%s,XXXX-XX-XX,P%dD)' % (start_s, NDAYS)])
    assert len(res) == 0


# ---- several date-range constraints: collapse terminates, results stay inside at least one supplied range -----
from datatypes_timex_expression.timex_constraints_helper import TimexConstraintsHelper  # noqa: E402

LENS = sl('lens', [7, 14])           # one length (days) per constraint
_REAL_INNER = TimexConstraintsHelper.inner_collapse


class NoProgress(AssertionError):
    pass


def _monitored_inner(self, ranges):
    """the real inner_collapse under a termination monitor: a pass that reports 'collapsed something' must shorten the list
    (variant = len(ranges)); otherwise collapse() loops for ever"""
    n = len(ranges)
    r = _REAL_INNER(self, ranges)
    if r and not len(ranges) < n:
        raise NoProgress('TimexConstraintsHelper.collapse makes no progress: %d ranges before the pass, %d after' % (n, len(ranges)))
    return r


TimexConstraintsHelper.inner_collapse = _monitored_inner


def _constraint(o, n):
    d0 = datetime.fromordinal(o)
    y, mo, d = d0.year, d0.month, d0.day
    return '(%s-%s-%s,XXXX-XX-XX,P%dD)' % (digits.ph(y, 4), digits.ph(mo, 2), digits.ph(d, 2), n), datetime(y, mo, d)


OFFS = sl('offs', None)              # concrete offsets (days) of constraints 2, 3 from the first; None = symbolic


def _multi(o1, d2, d3):
    offs = [0, d2, d3][:len(LENS)]
    if OFFS is not None:
        offs = [0] + list(OFFS)
    cons, starts = [], []
    for off, n in zip(offs, LENS):
        c, s = _constraint(o1 + off, n)
        cons.append(c)
        starts.append(s)
    return cons, starts


def h_weekday_multi(o1: int, d2: int, d3: int):
    """2..3 date-range constraints anywhere in a 2-year window (any order, overlapping or not) and a weekday candidate:
    evaluate() returns; every result is definite, is that weekday, lies inside at least one supplied range; no duplicates"""
    assert ORD_LO + 40 <= o1 <= ORD_HI - 800 and -30 <= d2 <= 730 and -30 <= d3 <= 730
    assert OFFS is None or (d2 == 0 and d3 == 0)
    digits.reset()
    cons, starts = _multi(o1, d2, d3)
    res = TimexRangeResolver.evaluate(['XXXX-WXX-%d' % WD], cons)
    got = []
    for t in res:
        assert t.year is not None and t.month is not None and t.day_of_month is not None
        assert t.day_of_week is None
        dt = datetime(t.year, t.month, t.day_of_month)
        assert dt.isoweekday() == WD
        inside = False
        for s, n in zip(starts, LENS):
            if timedelta(days=0) <= dt - s < timedelta(days=n):
                inside = True
        assert inside
        got.append(dt)
    for i in range(len(got)):
        for j in range(i + 1, len(got)):
            assert got[i] != got[j]


def t_weekday_multi(o1: int, d2: int, d3: int):
    assert ORD_LO + 40 <= o1 <= ORD_HI - 800 and -30 <= d2 <= 730 and -30 <= d3 <= 730
    assert OFFS is None or (d2 == 0 and d3 == 0)
    digits.reset()
    cons, starts = _multi(o1, d2, d3)
    res = TimexRangeResolver.evaluate(['XXXX-WXX-%d' % WD], cons)
    assert len(res) == 0


# ---- collapse() on abstract ranges: the inductive piece behind "inside at least one supplied constraint" --------------------------
from datatypes_timex_expression import DateRange, TimeRange, Time  # noqa: E402

NR = sl('nr', 3)


def h_collapse_dates(s1: int, n1: int, s2: int, n2: int, s3: int, n3: int, s4: int, n4: int):
    """the real collapse()/DateRange on ranges whose endpoints are symbolic day numbers (the code only compares them and takes
    max/min): it terminates (monitor), returns at least one range, every returned range lies inside one of the supplied ranges,
    sorted by start; a single range is returned unchanged"""
    assert 0 <= s1 <= 800 and 1 <= n1 <= 400 and 0 <= s2 <= 800 and 1 <= n2 <= 400
    assert 0 <= s3 <= 800 and 1 <= n3 <= 400 and 0 <= s4 <= 800 and 1 <= n4 <= 400
    orig = [(s1, s1 + n1), (s2, s2 + n2), (s3, s3 + n3), (s4, s4 + n4)][:NR]
    out = TimexConstraintsHelper.collapse(TimexConstraintsHelper(), [DateRange(a, b) for a, b in orig])
    assert len(out) >= 1
    for r in out:
        ok = False
        for a, b in orig:
            if a <= r.start and r.end <= b:
                ok = True
        assert ok
    for i in range(len(out) - 1):
        assert out[i].start <= out[i + 1].start
    if NR == 1:
        assert len(out) == 1 and out[0].start == s1 and out[0].end == s1 + n1


def t_collapse_dates(s1: int, n1: int, s2: int, n2: int, s3: int, n3: int, s4: int, n4: int):
    assert 0 <= s1 <= 800 and 1 <= n1 <= 400 and 0 <= s2 <= 800 and 1 <= n2 <= 400
    assert 0 <= s3 <= 800 and 1 <= n3 <= 400 and 0 <= s4 <= 800 and 1 <= n4 <= 400
    orig = [(s1, s1 + n1), (s2, s2 + n2), (s3, s3 + n3), (s4, s4 + n4)][:NR]
    out = TimexConstraintsHelper.collapse(TimexConstraintsHelper(), [DateRange(a, b) for a, b in orig])
    assert len(out) == NR            # must be violated: some inputs do collapse (NR >= 2)


def _tr(h, m, s, dur):
    """a TimeRange starting at h:m:s lasting dur seconds, the end written as a Time with its own fields"""
    e = h * 3600 + m * 60 + s + dur
    return TimeRange(Time(h, m, s), Time(e // 3600, e % 3600 // 60, e % 60)), ((h * 3600 + m * 60 + s) * 1000, e * 1000)


def h_collapse_times(h1: int, m1: int, c1: int, d1: int, h2: int, m2: int, c2: int, d2: int, h3: int, m3: int, c3: int, d3: int):
    """the same for TimeRange/Time (milliseconds of day; Time.from_seconds goes through float division, modelled exactly)"""
    assert 0 <= h1 <= 23 and 0 <= m1 <= 59 and 0 <= c1 <= 59 and 1 <= d1 <= 36000
    assert 0 <= h2 <= 23 and 0 <= m2 <= 59 and 0 <= c2 <= 59 and 1 <= d2 <= 36000
    assert 0 <= h3 <= 23 and 0 <= m3 <= 59 and 0 <= c3 <= 59 and 1 <= d3 <= 36000
    rs, orig = [], []
    for (h, m, c, d) in [(h1, m1, c1, d1), (h2, m2, c2, d2), (h3, m3, c3, d3)][:NR]:
        r, o = _tr(h, m, c, d)
        rs.append(r)
        orig.append(o)
    out = TimexConstraintsHelper.collapse(TimexConstraintsHelper(), rs)
    assert len(out) >= 1
    for r in out:
        a0, b0 = r.start.get_time(), r.end.get_time()
        ok = False
        for a, b in orig:
            if a <= a0 and b0 <= b:
                ok = True
        assert ok
    for i in range(len(out) - 1):
        assert out[i].start.get_time() <= out[i + 1].start.get_time()


# ---- time candidates against time-range constraints (no dates involved) ---------------------------------------------------------
TCONS = sl('tcons', [['r', 'H', 2]])     # ['r', unit, amount] explicit range with a symbolic start; ['p', 'AF'] part of day
TFIELDS = sl('tfields', 2)               # candidate written as T hh (1), T hh:mm (2), T hh:mm:ss (3)
POD = {'DT': (8, 18), 'MO': (8, 12), 'AF': (12, 16), 'EV': (16, 20), 'NI': (20, 24)}
UNIT_S = {'H': 3600, 'M': 60, 'S': 1}


def _time_text(h, m, s, fields):
    t = 'T' + digits.ph(h, 2)
    if fields >= 2:
        t += ':' + digits.ph(m, 2)
    if fields >= 3:
        t += ':' + digits.ph(s, 2)
    return t


def _time_cons(starts):
    cons, spans = [], []
    k = 0
    for c in TCONS:
        if c[0] == 'p':
            cons.append('T' + c[1])
            spans.append((POD[c[1]][0] * 3600, POD[c[1]][1] * 3600))
        else:
            h, m = starts[k]
            k += 1
            a = h * 3600 + m * 60
            b = a + UNIT_S[c[1]] * c[2]
            # the written end is the true end (a consistent range TIMEX); the library recomputes it from start + duration
            cons.append('(%s,%s,PT%d%s)' % (_time_text(h, m, 0, 2), _time_text(b // 3600, b % 3600 // 60, b % 60, 3), c[2], c[1]))
            spans.append((a, b))
    return cons, spans


def h_time_constraints(h: int, m: int, s: int, h1: int, m1: int, h2: int, m2: int):
    """a time candidate and 1..2 time-range constraints: evaluate() returns; whatever it returns is the candidate itself (same
    hour/minute/second, no date fields) and lies inside at least one supplied time range"""
    assert 0 <= h <= 23 and 0 <= m <= 59 and 0 <= s <= 59 and 0 <= h1 <= 19 and 0 <= m1 <= 59 and 0 <= h2 <= 19 and 0 <= m2 <= 59
    digits.reset()
    if TFIELDS < 3:
        assume(s == 0)
    if TFIELDS < 2:
        assume(m == 0)
    cons, spans = _time_cons([(h1, m1), (h2, m2)])
    res = TimexRangeResolver.evaluate([_time_text(h, m, s, TFIELDS)], cons)
    assert len(res) <= 1
    tsec = h * 3600 + m * 60 + s
    for t in res:
        assert t.year is None and t.month is None and t.day_of_month is None and t.day_of_week is None
        assert t.hour == h and t.minute == m and t.second == s
        inside = False
        for a, b in spans:
            if a <= tsec < b:
                inside = True
        assert inside


def t_time_constraints(h: int, m: int, s: int, h1: int, m1: int, h2: int, m2: int):
    assert 0 <= h <= 23 and 0 <= m <= 59 and 0 <= s <= 59 and 0 <= h1 <= 19 and 0 <= m1 <= 59 and 0 <= h2 <= 19 and 0 <= m2 <= 59
    digits.reset()
    if TFIELDS < 3:
        assume(s == 0)
    if TFIELDS < 2:
        assume(m == 0)
    cons, spans = _time_cons([(h1, m1), (h2, m2)])
    res = TimexRangeResolver.evaluate([_time_text(h, m, s, TFIELDS)], cons)
    assert len(res) == 0


# ---- month-day candidate against one date-range constraint --------------------------------------------------------------------
MDCON = sl('mdcon', 'year')          # 'year' (yyyy), 'month' (yyyy-mm), 'days' (explicit start + P<ndays>D), 'two' (two such ranges GAP days apart)
GAP = sl('gap', 60)
DIM_LEAP = [0, 31, 29, 31, 30, 31, 30, 31, 31, 30, 31, 30, 31]


def _md_run(o, mo, d):
    start0 = datetime.fromordinal(o)
    y, m0, d0 = start0.year, start0.month, start0.day
    if MDCON == 'year':
        con = digits.ph(y, 4)
        lo, hi = datetime(y, 1, 1), datetime(y + 1, 1, 1)
    elif MDCON == 'month':
        con = digits.ph(y, 4) + '-' + digits.ph(m0, 2)
        lo = datetime(y, m0, 1)
        hi = datetime(y + 1, 1, 1) if m0 == 12 else datetime(y, m0 + 1, 1)
    elif MDCON == 'twomonths':
        # two year-month constraints three months apart (m0 <= 9): the two months between them belong to neither
        assume(m0 <= 9)
        lo, hi = datetime(y, m0, 1), datetime(y, m0 + 1, 1)
        lo2 = datetime(y, m0 + 3, 1)
        hi2 = datetime(y + 1, 1, 1) if m0 == 9 else datetime(y, m0 + 4, 1)
        con = digits.ph(y, 4) + '-' + digits.ph(m0, 2)
        con2 = digits.ph(y, 4) + '-' + digits.ph(m0 + 3, 2)
        res = TimexRangeResolver.evaluate(['XXXX-%s-%s' % (digits.ph(mo, 2), digits.ph(d, 2))], [con, con2])
        return res, (lo, lo2), (hi, hi2)
    elif MDCON == 'two':
        # two disjoint explicit ranges GAP days apart: a candidate in the gap belongs to neither
        lo = datetime(y, m0, d0)
        hi = lo + timedelta(days=NDAYS)
        lo2 = hi + timedelta(days=GAP)
        hi2 = lo2 + timedelta(days=NDAYS)
        con = '(%s-%s-%s,XXXX-XX-XX,P%dD)' % (digits.ph(y, 4), digits.ph(m0, 2), digits.ph(d0, 2), NDAYS)
        con2 = '(%s-%s-%s,XXXX-XX-XX,P%dD)' % (digits.ph(lo2.year, 4), digits.ph(lo2.month, 2), digits.ph(lo2.day, 2), NDAYS)
        res = TimexRangeResolver.evaluate(['XXXX-%s-%s' % (digits.ph(mo, 2), digits.ph(d, 2))], [con, con2])
        return res, (lo, lo2), (hi, hi2)
    else:
        con = '(%s-%s-%s,XXXX-XX-XX,P%dD)' % (digits.ph(y, 4), digits.ph(m0, 2), digits.ph(d0, 2), NDAYS)
        lo = datetime(y, m0, d0)
        hi = lo + timedelta(days=NDAYS)
    res = TimexRangeResolver.evaluate(['XXXX-%s-%s' % (digits.ph(mo, 2), digits.ph(d, 2))], [con])
    return res, lo, hi


def h_monthday_in_range(o: int, mo: int, d: int):
    """a month-day candidate (every calendar month-day incl. 29 February) and one date-range constraint: evaluate() returns;
    every result is definite, has that month and day, lies inside the range; no duplicates"""
    assert ORD_LO + 40 <= o <= ORD_HI - 800 and 1 <= mo <= 12 and 1 <= d <= 31
    digits.reset()
    assume(d <= DIM_LEAP[int(mo)])
    res, lo, hi = _md_run(o, mo, d)
    got = []
    for t in res:
        assert t.year is not None and t.month == mo and t.day_of_month == d
        dt = datetime(t.year, t.month, t.day_of_month)
        if MDCON in ('two', 'twomonths'):
            assert (lo[0] <= dt and dt < hi[0]) or (lo[1] <= dt and dt < hi[1]), ('result outside every supplied range', t.timex_value())
        else:
            assert lo <= dt < hi
        got.append(dt)
    for i in range(len(got)):
        for j in range(i + 1, len(got)):
            assert got[i] != got[j]


def t_monthday_in_range(o: int, mo: int, d: int):
    assert ORD_LO + 40 <= o <= ORD_HI - 800 and 1 <= mo <= 12 and 1 <= d <= 31
    digits.reset()
    assume(d <= DIM_LEAP[int(mo)])
    res, lo, hi = _md_run(o, mo, d)
    assert len(res) == 0


# ---- weekday candidate, one date range and a time constraint: the date instances carry that time -----------------------------
def h_weekday_time(o: int, h: int, m: int):
    assert ORD_LO <= o <= ORD_HI and 0 <= h <= 23 and 0 <= m <= 59
    digits.reset()
    start0 = datetime.fromordinal(o)
    y, mo, d = start0.year, start0.month, start0.day
    start_s = digits.ph(y, 4) + '-' + digits.ph(mo, 2) + '-' + digits.ph(d, 2)
    res = TimexRangeResolver.evaluate(['XXXX-WXX-%d' % WD], ['(%s,XXXX-XX-XX,P%dD)' % (start_s, NDAYS), _time_text(h, m, 0, 2)])
    start = datetime(y, mo, d)
    n = 0
    for t in res:
        assert t.year is not None and t.month is not None and t.day_of_month is not None and t.day_of_week is None
        dt = datetime(t.year, t.month, t.day_of_month)
        assert dt.isoweekday() == WD
        assert timedelta(days=0) <= dt - start < timedelta(days=NDAYS)
        assert t.hour == h and t.minute == m and t.second == 0
        n += 1
    assert n >= NDAYS // 7          # single date range: every such day is returned


def t_weekday_time(o: int, h: int, m: int):
    assert ORD_LO <= o <= ORD_HI and 0 <= h <= 23 and 0 <= m <= 59
    digits.reset()
    start0 = datetime.fromordinal(o)
    y, mo, d = start0.year, start0.month, start0.day
    start_s = digits.ph(y, 4) + '-' + digits.ph(mo, 2) + '-' + digits.ph(d, 2)
    res = TimexRangeResolver.evaluate(['XXXX-WXX-%d' % WD], ['(%s,XXXX-XX-XX,P%dD)' % (start_s, NDAYS), _time_text(h, m, 0, 2)])
    assert len(res) == 0
