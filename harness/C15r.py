"""C15 (range resolver) -- TimexRangeResolver.evaluate on TIMEX strings whose date fields are symbolic-digit placeholders:
the real parsing (stdlib re), constraint expansion, day-by-day matching and formatting run natively under symx with the
symbolic calendar."""
import sys

from harness.common import *  # noqa
from harness import digits
from lib.symx import assume

ENGINE = os.environ.get('VERIF_ENGINE', 'native')
import datatypes_timex_expression as dte  # noqa: E402
from datatypes_timex_expression import Timex, TimexRangeResolver  # noqa: E402
from datatypes_timex_expression.timex_date_helpers import TimexDateHelpers  # noqa: E402

env.assert_repo(Timex, TimexRangeResolver)
P = 'datatypes_timex_expression.'
MODS = [sys.modules[P + n] for n in ('timex', 'timex_helpers', 'timex_range_resolver', 'timex_date_helpers', 'timex_resolver')]
TimexDateHelpers.fixed_format_number = staticmethod(digits.fixed)
sys.modules[P + 'timex'].int = digits.unint
sys.modules[P + 'timex_helpers'].int = digits.unint
digits.SEMANTIC_MERGE[0] = False
if ENGINE == 'sx':
    from lib import symx, symdate
    digits.install_symx_hook()
    symx.RESET_HOOKS.append(symdate.reset)
    from datetime import date as _rdate, datetime as _rdatetime, timedelta as _rtd
    for _m in MODS:
        for _n, _real, _sym in (('date', _rdate, symdate.sdatetime), ('datetime', _rdatetime, symdate.sdatetime), ('timedelta', _rtd, symdate.stimedelta)):
            if getattr(_m, _n, None) is _real:
                setattr(_m, _n, _sym)
    datetime, timedelta = symdate.sdatetime, symdate.stimedelta
else:
    from datetime import datetime, timedelta

NDAYS = sl('ndays', 14)
WD = sl('wd', 3)


ORD_LO, ORD_HI = 712223, 762998        # 1951-01-01 .. 2089-12-31


def h_weekday_in_range(o: int):
    """a single date-range constraint (start, P<n>D) and a weekday candidate: every such weekday of [start, start+n) and nothing else.
    The start date is given by its day number; the digits written into the constraint string are its year/month/day."""
    assert ORD_LO <= o <= ORD_HI
    digits.reset()
    start0 = datetime.fromordinal(o)
    y, mo, d = start0.year, start0.month, start0.day
    start_s = digits.ph(y, 4) + '-' + digits.ph(mo, 2) + '-' + digits.ph(d, 2)
    constraint = '(%s,XXXX-XX-XX,P%dD)' % (start_s, NDAYS)
    # (only the first and third component of a range TIMEX are parsed; the end is recomputed from start + duration)
    res = TimexRangeResolver.evaluate(['XXXX-WXX-%d' % WD], [constraint])
    start = datetime(y, mo, d)
    got = []
    for t in res:
        assert t.year is not None and t.month is not None and t.day_of_month is not None      # definite
        assert t.day_of_week is None
        dt = datetime(t.year, t.month, t.day_of_month)
        assert dt.isoweekday() == WD                                                           # an instance of the candidate
        assert timedelta(days=0) <= dt - start < timedelta(days=NDAYS)                         # inside the constraint
        got.append(dt)
    for i in range(len(got)):
        for j in range(i + 1, len(got)):
            assert got[i] != got[j]
    # completeness: every such day is returned
    for k in range(NDAYS):
        day = start + timedelta(days=k)
        if day.isoweekday() == WD:
            assert any(g == day for g in got)


def t_weekday_in_range(o: int):
    assert ORD_LO <= o <= ORD_HI
    digits.reset()
    start0 = datetime.fromordinal(o)
    y, mo, d = start0.year, start0.month, start0.day
    start_s = digits.ph(y, 4) + '-' + digits.ph(mo, 2) + '-' + digits.ph(d, 2)
    res = TimexRangeResolver.evaluate(['XXXX-WXX-%d' % WD], ['(%s,XXXX-XX-XX,P%dD)' % (start_s, NDAYS)])
    assert len(res) == 0
