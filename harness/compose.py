"""C01/C12 at API level on composed texts: a query is assembled from symbolic indices into small pools (pad, prefix, body, tail);
symx enumerates the index space through the solver, the real recogniser (all its real regexes) runs on each query, and every
returned entity must satisfy the span contract of C01 / the disjointness of C12.  Small-scope exhaustive, like C16."""
from harness.common import *  # noqa
from lib.symx import assume

KIND = sl('kind', 'phone')
PAD = sl('pad', None)             # fix the pad index (splits the space into slices)

CULTURE = sl('culture', 'en-us')
PADS = ['', 'x ', 'call ', 'my no. is ', '(', 'tel:', 'a-', '请打 ', 'İ ', ' ']
if CULTURE == 'zh-cn':
    PADS = ['', '我有', '大约 ', '（', 'x ', '１２ ', '请打 ', 'İ ', '第', ' ']
    
TAILS = ['', '.', ' now', ' ext 5', ', thanks', ')', ' 12']
if CULTURE == 'zh-cn':
    TAILS = ['', '。', '个', ' ok', '，谢谢', '）', '１２']

ZH_POOLS = {
    'number': (['', '负', '第'], ['三百二十一', '12', '１２', '一千零五', '3.5', '百分之五', '两万', '十几', '1,234', '三分之一']),
    'percentage': (['', '大约'], ['百分之五', '5%', '百分之十二点五', '１２％']),
    'currency': (['', '$', '人民币', '约'], ['五十元', '300美圆', '20', '五元', '３００美元', '20美元']),
    'dimension': (['', '约'], ['五公里', '3米', '十二公斤', '5 km', '三斤半', '三斤苹果和半个西瓜', '两米，再加半米']),
    'age': (['', '哥哥'], ['三岁', '三岁半', '三岁,吃了半个', '10周岁', '两岁的弟弟和半岁的妹妹']),
    'temperature': (['', '大约'], ['三十度', '30摄氏度', '零下五度半', '五度,半小时后']),
    'datetime': (['', '从', '在', '明天'], ['明天', '下周五', '2019年5月6日', '三点半', '5月6日下午3点', '昨天晚上', '2018年', '三天后', '1月到3月', '周一到周五']),
}
POOLS = {
    'phone': (['', '00-', '011-', '+1 ', '00 ', '+44 ', '1-'],
              ['1-206-555-0100', '(206) 555-0100', '206 555 0100', '555-0100', '+86 13912345678', '0 20 7946 0958', '4255550100', '(555) 123-4567 x89']),
    'ip': (['', 'ip ', 'ip:', '::', '0'], ['192.168.0.1', '10.0.0.256', '2001:db8::1', '::1', '1.2.3.4.5', 'fe80::1%eth0']),
    'email': (['', 'mailto:', '<', 'a.b+'], ['joe@example.com', 'J.Doe_9@mail.co.uk', 'x@y', 'a@b.c.d.org', 'user@localhost.']),
    'url': (['', 'see ', '<', 'http://'], ['www.example.com', 'https://a.b/c?d=1#e', 'example.org/path.', 'ftp://x.y', 'bing.com,']),
    'hashtag': (['', '#', 'a'], ['#tag', '#tag_2', '#1', '#täg', '##x']),
    'mention': (['', '@', 'a'], ['@user', '@user_1', '@1', '@a.b', '@@x']),
    'guid': (['', '{', 'id='], ['123e4567-e89b-12d3-a456-426655440000', '{123E4567-E89B-12D3-A456-426655440000}', '123e4567e89b12d3a456426655440000', '123e4567-e89b-12d3-a456-42665544000']),
    'currency': (['', '$', 'us$ ', 'US$', '€ ', 'hk$ ', 'about $'], ['12', '12.50', '5 dollars', '3 dollars and 50 cents', '10$', '7 usd', '1,234 euros']),
    'dimension': (['', 'about ', '~'], ['7 km', '12.5kg', '3 miles', '6 ft 2 in', '5 fluid ounces', '2 mb']),
    'number': (['', '-', 'minus ', '$', '#'], ['12', '1,234.5', 'twenty one', '3/4', '1e5', 'one hundred and five', '５５']),
    'datetime': (['', 'tomorrow morning at ', 'from ', 'between 10 and ', 'on ', 'before ', 'monday '],
                 ['7, this afternoon', '11:30 on 1/1/2015', 'may 5 or later', '3pm to 5pm', 'next friday', 'the 3rd of May 2019 at 8', '2014 through 2018', '5/6/2020 5/7/2020', '8 pm tonight', '1/1/2016 and after', '138-2010-2015', 'May 2 and after June 5', 'june 5th and before 1/1/2015 or', '3pm and after 5pm on 1/2/2015']),
    'percentage': (['', '-', 'about '], ['12%', '12 percent', '12.5 %', 'twelve percent', '100％']),
}


def _recognize(kind, q):
    if kind == 'phone':
        from recognizers_sequence import recognize_phone_number as f
    elif kind == 'ip':
        from recognizers_sequence import recognize_ip_address as f
    elif kind == 'email':
        from recognizers_sequence import recognize_email as f
    elif kind == 'url':
        from recognizers_sequence import recognize_url as f
    elif kind == 'hashtag':
        from recognizers_sequence import recognize_hashtag as f
    elif kind == 'mention':
        from recognizers_sequence import recognize_mention as f
    elif kind == 'guid':
        from recognizers_sequence import recognize_guid as f
    elif kind == 'currency':
        from recognizers_number_with_unit import recognize_currency as f
    elif kind == 'dimension':
        from recognizers_number_with_unit import recognize_dimension as f
    elif kind == 'datetime':
        from recognizers_date_time import recognize_datetime
        from datetime import datetime
        return recognize_datetime(q, CULTURE, reference=datetime(2019, 4, 23, 8, 30))
    elif kind == 'age':
        from recognizers_number_with_unit import recognize_age as f
    elif kind == 'temperature':
        from recognizers_number_with_unit import recognize_temperature as f
    elif kind == 'number':
        from recognizers_number import recognize_number as f
    else:
        from recognizers_number import recognize_percentage as f
    return f(q, CULTURE)


def _norm(s):
    """the library's documented length-preserving normalisation"""
    from recognizers_text.utilities import QueryProcessor
    out = QueryProcessor.preprocess(s, False)
    assert len(out) == len(s)
    return out


def span_contract(q, rs):
    for r in rs:
        assert 0 <= r.start <= r.end < len(q), ('range', q, r.text, r.start, r.end)
        cut = q[r.start:r.end + 1]
        assert _norm(cut).strip() == _norm(r.text).strip(), ('text', q, r.text, r.start, r.end, cut)


# recorded finding F44: an entity with a leading AND a trailing modifier (one match_is_after flag serves all modifiers in BaseMergedParser.parse)
F44_INPUTS = ('before 1/1/2016 and after', 'before may 5 or later and', 'after 3pm or later')
F3A = []        # (span, span) pairs the add_to monitor attributes to the recorded finding F3a during the current query


def _install_add_to_monitor():
    """BaseMergedExtractor.add_to keeps a new result that covers one existing result while partially overlapping another (known
    finding F3a, identified by this call site).  The monitor calls the real add_to and, with its own interval arithmetic on the
    inputs, records exactly those pairs; an overlap in the final output is excused only if it is one of them."""
    from recognizers_date_time.date_time.base_merged import BaseMergedExtractor
    if getattr(BaseMergedExtractor.add_to, '_verif_monitor', False):
        return
    real = BaseMergedExtractor.add_to

    def add_to(self, destinations, source, text):
        before = [(d.start, d.start + d.length - 1) for d in destinations]
        out = real(self, destinations, source, text)
        for v in source:
            a, b = v.start, v.start + v.length - 1
            covers = [d for d in before if a <= d[0] and d[1] <= b and (d[1] - d[0]) < (b - a)]
            crosses = [d for d in before if d[0] <= b and a <= d[1] and not (a <= d[0] and d[1] <= b) and not (d[0] <= a and b <= d[1])]
            if covers and crosses:
                for d in crosses:
                    F3A.append(((a, b), d))
        return out
    add_to._verif_monitor = True
    BaseMergedExtractor.add_to = add_to


F37 = []        # set by the monitor when ChineseMergedExtractor.add_mod changed an extract result during the current query


def _install_zh_add_mod_monitor():
    """ChineseMergedExtractor.add_mod (modifier widening: 从 / 之前 / 以后 ...) computes offsets and texts wrongly (known finding F37,
    identified by this call site).  The monitor calls the real add_mod and records whether it changed any result; such queries are
    in the region of F37 and are not judged here."""
    from recognizers_date_time.date_time.chinese.merged_extractor import ChineseMergedExtractor
    if getattr(ChineseMergedExtractor.add_mod, '_verif_monitor', False):
        return
    real = ChineseMergedExtractor.add_mod

    def add_mod(self, extract_results, source):
        before = [(e.start, e.length, e.text) for e in extract_results]
        out = real(self, extract_results, source)
        after = [(e.start, e.length, e.text) for e in extract_results]
        if before != after:
            F37.append((before, after))
        return out
    add_mod._verif_monitor = True
    ChineseMergedExtractor.add_mod = add_mod


F36 = []        # (span, span) pairs attributed to known finding F36 by the unit-model monitor during the current query


def _unit_model_with_monitor(kind):
    """the cached unit model of the culture with its extractors wrapped by recorders: a pair of results is attributed to F36 when the
    later one comes from a later extractor/parser pair and lies inside or across the earlier one (decided on the recorded spans)"""
    from recognizers_number_with_unit.number_with_unit.number_with_unit_recognizer import NumberWithUnitRecognizer
    rec = NumberWithUnitRecognizer(CULTURE)
    model = {'currency': rec.get_currency_model, 'dimension': rec.get_dimension_model, 'age': rec.get_age_model, 'temperature': rec.get_temperature_model}[kind]()
    seen = {}
    for idx, item in enumerate(model.extractor_parser):
        ex = item.extractor
        if not getattr(ex, '_verif_rec', False):
            real = ex.extract

            def extract(source, _real=real, _ex=ex):
                out = _real(source)
                _ex._verif_last = [(e.start, e.start + e.length - 1) for e in out]
                # (entity span, absolute span of its number) -- e.data is the number with a start relative to the entity
                _ex._verif_nums = [((e.start, e.start + e.length - 1), (e.start + e.data.start, e.start + e.data.start + e.data.length - 1))
                                   for e in out if getattr(e, 'data', None) is not None and hasattr(e.data, 'start')]
                return out
            ex.extract = extract
            ex._verif_rec = True
    return model


def _attribute_f41(model):
    """known finding F41: within ONE extractor, the suffix unit of an entity swallows the numeral of the next entity (zh: 两 is both the
    unit liang and the numeral two).  Attributed only when the later entity's number starts inside the earlier entity but after the
    earlier entity's own number."""
    for item in model.extractor_parser:
        nums = getattr(item.extractor, '_verif_nums', [])
        for (sx, nx) in nums:
            for (sy, ny) in nums:
                if sx != sy and nx[1] < ny[0] <= sx[1] and sy[0] <= sx[1]:
                    F36.append((sx, sy))


def _attribute_f36(model):
    lists = [getattr(item.extractor, '_verif_last', []) for item in model.extractor_parser]
    for j in range(1, len(lists)):
        for i in range(j):
            for (a, b) in lists[i]:
                for (c, d) in lists[j]:
                    apart = d < a or b < c
                    covers = c <= a and b <= d
                    if not apart and not covers:
                        F36.append(((a, b), (c, d)))


def disjoint(q, rs):
    sp = sorted((r.start, r.end, r.text) for r in rs)
    for i in range(len(sp)):
        for j in range(i + 1, len(sp)):
            a, b = sp[i], sp[j]
            if a[0] <= b[1] and b[0] <= a[1]:
                # a recorded F3a pair may have been widened afterwards by a modifier (add_mod): the final spans contain the recorded ones
                def _within(p_, s_):
                    return s_[0] <= p_[0] and p_[1] <= s_[1]
                if any((_within(p1, a) and _within(p2, b)) or (_within(p1, b) and _within(p2, a)) for (p1, p2) in F3A):
                    continue
                if ((a[0], a[1]), (b[0], b[1])) in F36 or ((b[0], b[1]), (a[0], a[1])) in F36:
                    continue
                assert False, ('overlap', q, a, b)


EU_POOLS = {
    'es-es': {'number': (['', 'menos ', 'unos '], ['doce', '1.234,5', 'dos mil trescientos', 'tres cuartos', 'veintiuno', 'un millón', '12']),
              'currency': (['', '$', 'unos '], ['20 euros', '5 dólares', '3 dólares y 50 centavos', '1.200 pesos', '7 decímetros']),
              'dimension': (['', 'unos '], ['5 km', 'doce kilómetros', '3 decímetros', '2 metros']),
              'datetime': (['', 'antes del ', 'desde el ', 'el '], ['5 de mayo de 2019', 'mañana', 'lunes', '3 de la tarde', 'próxima semana', '12/05/2019', 'ayer por la noche'])},
    'fr-fr': {'number': (['', 'moins ', 'environ '], ['douze', '1.234,5', 'deux mille trois cent', 'trois quarts', 'vingt et un', 'mille cent', '12']),
              'currency': (['', '$', 'environ '], ['20 euros', '5 dollars', '3 dollars et 50 cents', '7 denar']),
              'dimension': (['', 'environ '], ['5 km', 'douze kilomètres', '3 decametre', '2 mètres']),
              'datetime': (['', 'avant le ', 'depuis le ', 'le '], ['5 mai 2019', 'demain', 'lundi', '3 heures', 'la semaine prochaine', '12/05/2019', 'hier soir'])},
    'pt-br': {'number': (['', 'menos ', 'uns '], ['doze', '1.234,5', 'dois mil e trezentos', 'três quartos', 'vinte e um', '12']),
              'currency': (['', 'R$ ', 'uns '], ['20 euros', '5 dólares', '3 reais e 50 centavos']),
              'dimension': (['', 'uns '], ['5 km', 'doze quilômetros', '2 metros']),
              'datetime': (['', 'antes de ', 'desde ', 'em '], ['5 de maio de 2019', 'amanhã', 'segunda-feira', '3 da tarde', 'próxima semana', '12/05/2019', 'ontem à noite'])},
    'de-de': {'number': (['', 'minus ', 'etwa '], ['zwölf', '1.234,5', 'zweitausenddreihundert', 'drei viertel', 'einundzwanzig', '12']),
              'currency': (['', 'etwa '], ['20 euro', '5 dollar', '3 dollar und 50 cent']),
              'datetime': (['', 'vor dem ', 'seit dem ', 'am '], ['5. mai 2019', 'morgen', 'montag', '15 uhr', 'nächste woche', '12.05.2019', 'gestern abend'])},
}
if CULTURE == 'zh-cn':
    POOLS = ZH_POOLS
elif CULTURE in EU_POOLS:
    POOLS = EU_POOLS[CULTURE]
    PADS = ['', 'x ', 'y son ', '(', ' ', 'İ ', '12 ']
    TAILS = ['', '.', ' ok', ', gracias', ')', ' 12']


def build(a, b, c, d):
    pre, bodies = POOLS[KIND]
    return PADS[a] + pre[b] + bodies[c] + TAILS[d]


def h_compose(a: int, b: int, c: int, d: int):
    pre, bodies = POOLS[KIND]
    assume(0 <= a < len(PADS) and 0 <= b < len(pre) and 0 <= c < len(bodies) and 0 <= d < len(TAILS))
    assume(PAD is None or a == PAD)
    q = build(int(a), int(b), int(c), int(d))
    del F3A[:]
    del F37[:]
    if KIND == 'datetime':
        _install_add_to_monitor()
        if CULTURE == 'zh-cn':
            _install_zh_add_mod_monitor()
    del F36[:]
    if CULTURE == 'zh-cn' and KIND in ('currency', 'dimension', 'age', 'temperature'):
        model = _unit_model_with_monitor(KIND)
        rs = model.parse(q)
        _attribute_f36(model)
        _attribute_f41(model)
    else:
        rs = _recognize(KIND, q)
    if F37:
        return                       # region of known finding F37 (the modifier widening of the Chinese merged extractor touched a result)
    if KIND == 'datetime' and CULTURE == 'en-us' and any(w in q for w in F44_INPUTS):
        return                       # recorded finding F44, identified by its inputs
    span_contract(q, rs)
    disjoint(q, rs)


def t_compose(a: int, b: int, c: int, d: int):
    pre, bodies = POOLS[KIND]
    assume(0 <= a < len(PADS) and 0 <= b < len(pre) and 0 <= c < len(bodies) and 0 <= d < len(TAILS))
    assume(PAD is None or a == PAD)
    q = build(int(a), int(b), int(c), int(d))
    assert len(_recognize(KIND, q)) == 0
