"""Shared set-up for the date-time harnesses (C06..C11): real English parser stack, match-object stub,
symbolic-digit plumbing (harness/digits.py)."""
import os
import sys
from datetime import datetime, timedelta

from harness.common import *  # noqa
from harness import digits

import recognizers_date_time  # noqa
from recognizers_date_time.date_time.english.common_configs import EnglishCommonDateTimeParserConfiguration
from recognizers_date_time.date_time import utilities as _u  # may be shadowed; use sys.modules below
from recognizers_date_time.date_time.constants import Constants, TimeTypeConstants

DT = 'recognizers_date_time.date_time.'
UTIL = sys.modules[DT + 'utilities']
BASE_DATE = sys.modules[DT + 'base_date']
BASE_TIME = sys.modules[DT + 'base_time']
BASE_MERGED = sys.modules[DT + 'base_merged']
env.assert_repo(UTIL, BASE_DATE, BASE_TIME, BASE_MERGED)

DateUtils = UTIL.DateUtils
DateTimeFormatUtil = UTIL.DateTimeFormatUtil
DayOfWeek = UTIL.DayOfWeek

ENGINE = os.environ.get('VERIF_ENGINE', 'native')
MODS = [UTIL, BASE_DATE, BASE_TIME, BASE_MERGED] + [sys.modules[DT + n] for n in (
    'base_dateperiod', 'base_datetime', 'base_datetimeperiod', 'base_duration', 'base_timeperiod', 'base_holiday', 'base_set')]
if ENGINE == 'xh':
    digits.install_format_hook()
for _m in MODS:
    _m.int = digits.unint          # int(<group text>) of a placeholder -> the symbolic int it stands for
if ENGINE == 'sx':
    # symx: the modules under test get the symbolic calendar classes (lib/symdate.py) in place of datetime/timedelta/calendar
    from lib import symx, symdate
    digits.install_symx_hook()
    symx.RESET_HOOKS.append(symdate.reset)
    datetime, timedelta = symdate.sdatetime, symdate.stimedelta
    for _m in MODS:
        for _n, _v in (('datetime', symdate.sdatetime), ('timedelta', symdate.stimedelta), ('calendar', symdate.calendar)):
            if hasattr(_m, _n):
                setattr(_m, _n, _v)
    DateUtils.min_value = symdate.const(1, 1, 1)

CFG = EnglishCommonDateTimeParserConfiguration()
MIN_VALUE = DateUtils.min_value


class FakeMatch:
    """What regex.search/match may hand to the parser: named groups that are substrings of the match.
    Only the interface the parsers use is provided (groupdict / group / start / end / captures)."""
    def __init__(self, groups, text='', start=0):
        self._g = dict(groups)
        self._text = text
        self._start = start
        self.string = text

    def groupdict(self):
        return dict(self._g)

    def group(self, name=0):
        if name == 0:
            return self._text
        return self._g.get(name)

    def start(self, *a):
        return self._start

    def end(self, *a):
        return self._start + len(self._text)

    def captures(self, name):
        v = self._g.get(name)
        return [v] if v else []

    def __bool__(self):
        return True


def ref_datetime(ry, rm, rd, hh=0, mi=0):
    return datetime(ry, rm, rd, hh, mi)
