"""C06 / C08 / C09 for Chinese: the real ChineseDateParser (its own match_to_date / parse_implicit_date / get_day_of_month /
get_month_of_year, not the base class code) under the real ChineseMergedParser resolution builder, driven through the same regex stub
as harness/dateparse.py: exactly one designated pattern "matches" the whole text with chosen groups; from there the real code runs on a
symbolic year (digit placeholders), symbolic day, symbolic reference datetime.  Which texts the Chinese patterns accept is not decided
here (the Chinese date patterns spell numerals as literal alternatives; they are exercised through the API by the corpus obligations)."""
import sys

from harness.dtcommon import *  # noqa
from recognizers_text.extractor import ExtractResult
from recognizers_date_time.date_time.chinese.merged_parser import ChineseMergedParser

_ZD = sys.modules[DT + 'chinese.date_parser']
env.assert_repo(_ZD)
_ZD.int = digits.unint
if ENGINE == 'sx':
    for _n, _v in (('datetime', symdate.sdatetime), ('timedelta', symdate.stimedelta)):
        if hasattr(_ZD, _n):
            setattr(_ZD, _n, _v)

ZMP = ChineseMergedParser()
ZDP = ZMP.config.date_parser
env.assert_repo(type(ZDP))

M = sl('m', 1)
WORD = sl('word', '今天')
WD = sl('wd', 1)
TEXT = "x"
DIM_MAX = [0, 31, 29, 31, 30, 31, 30, 31, 31, 30, 31, 30, 31]


class FakeRegex:
    def __init__(self):
        self.target, self.groups, self.text = None, {}, TEXT

    def _hit(self, pattern, s):
        if pattern is self.target:
            return FakeMatch(self.groups, text=self.text, start=0)
        return None

    def search(self, pattern, s, *a, **k):
        return self._hit(pattern, s)

    def match(self, pattern, s, *a, **k):
        return self._hit(pattern, s)

    def finditer(self, pattern, s, *a, **k):
        m = self._hit(pattern, s)
        return iter([m] if m else [])

    def findall(self, pattern, s, *a, **k):
        return []


FR = FakeRegex()
_ZD.regex = FR


def run(target, groups, ref, text=TEXT):
    FR.target, FR.groups, FR.text = target, groups, text
    er = ExtractResult()
    er.start, er.length, er.text, er.type = 0, len(text), text, Constants.SYS_DATETIME_DATE
    return ZMP.parse(er, ref)


def _vals(pr):
    return pr.value['values'] if pr is not None and pr.value else None


def _tables(m, d):
    ZDP.config._month_of_year = {'M': m}
    ZDP.config._day_of_month = {'D': d}


def _ref(o, hh, mi):
    return datetime.fromordinal(o).replace(hour=hh, minute=mi) if ENGINE != 'sx' else symdate.sdatetime._from_ord(o, hh * 3600 + mi * 60)


ORD_LO, ORD_HI = 711858, 763363          # 1950-01-01 .. 2090-12-31


def _dim(y, m):
    return symdate.days_in_month(y, m) if ENGINE == 'sx' else dim(y, m)


# ---- C06: year + month + day -----------------------------------------------------------------------------------------
def h_zh_full(y: int, d: int, o: int, hh: int, mi: int):
    assert 1900 <= y <= 2099 and 1 <= d <= 31
    assert ORD_LO <= o <= ORD_HI and 0 <= hh <= 23 and 0 <= mi <= 59
    digits.reset()
    _tables(M, d)
    pr = run(ZDP.config.date_regex[0], {'year': digits.ph(y, 4), 'month': 'M', 'day': 'D'}, _ref(o, hh, mi))
    vals = _vals(pr)
    assert vals is not None and len(vals) == 1 and pr.type == 'datetimeV2.date' and vals[0]['type'] == 'date'
    assert digits.ymd(vals[0]['timex']) == (y, M, d), ('timex', vals[0]['timex'])
    if d <= _dim(y, M):
        assert digits.ymd(vals[0]['value']) == (y, M, d), ('value', vals[0]['value'])
    else:
        assert vals[0]['value'] == 'not resolved'


def t_zh_full(y: int, d: int, o: int, hh: int, mi: int):
    assert 1900 <= y <= 2099 and 1 <= d <= 28
    assert ORD_LO <= o <= ORD_HI and 0 <= hh <= 23 and 0 <= mi <= 59
    digits.reset()
    _tables(M, d)
    pr = run(ZDP.config.date_regex[0], {'year': digits.ph(y, 4), 'month': 'M', 'day': 'D'}, _ref(o, hh, mi))
    assert _vals(pr)[0]['value'] == 'not resolved'


def _own_day_later(o, hh, mi, d):
    ref = _ref(o, hh, mi)
    return (hh > 0 or mi > 0) and ref.month == M and ref.day == d


# ---- C09: month + day without a year ----------------------------------------------------------------------------------
def h_zh_noyear(d: int, o: int, hh: int, mi: int):
    assert 1 <= d <= DIM_MAX[M] and not (M == 2 and d == 29)
    assert ORD_LO <= o <= ORD_HI and 0 <= hh <= 23 and 0 <= mi <= 59
    assert not _own_day_later(o, hh, mi, d)          # region KF-C09-TOD (shared generate_dates)
    digits.reset()
    _tables(M, d)
    ref = _ref(o, hh, mi)
    pr = run(ZDP.config.date_regex[0], {'month': 'M', 'day': 'D'}, ref)
    vals = _vals(pr)
    assert vals is not None and len(vals) == 2
    assert all(digits.same(digits.decode(v['timex']), ['XXXX-', (M, 2), '-', (d, 2)]) for v in vals)
    p, f = digits.ymd(vals[0]['value']), digits.ymd(vals[1]['value'])
    assert p[1:] == (M, d) and f[1:] == (M, d) and f[0] == p[0] + 1
    po = datetime(p[0], p[1], p[2]).toordinal()
    fo = datetime(f[0], f[1], f[2]).toordinal()
    assert po < o and o <= fo


# ---- C09: bare weekday (the Chinese parser has its own branch) --------------------------------------------------------------
def h_zh_weekday(o: int, hh: int, mi: int):
    assert ORD_LO <= o <= ORD_HI and 0 <= hh <= 23 and 0 <= mi <= 59
    assert not ((hh > 0 or mi > 0) and (o - 1) % 7 + 1 == WD)          # own day with a time of day: region KF-C09-TOD
    digits.reset()
    ZDP.config._day_of_week = {'W': WD % 7}          # the tables map Sunday to 0
    pr = run(ZDP.config.week_day_regex, {'weekday': 'W'}, _ref(o, hh, mi))
    vals = _vals(pr)
    assert vals is not None and len(vals) == 2
    assert all(v['timex'] == 'XXXX-WXX-%d' % WD for v in vals), ('timex', [v['timex'] for v in vals])
    p, f = digits.ymd(vals[0]['value']), digits.ymd(vals[1]['value'])
    po = datetime(p[0], p[1], p[2]).toordinal()
    fo = datetime(f[0], f[1], f[2]).toordinal()
    assert (po - 1) % 7 + 1 == WD and fo - po == 7 and po < o and o <= fo, ('candidates', vals)


# ---- C08: special days (今天 明天 后天 大后天 昨天 前天 大前天 ...) ------------------------------------------------------------
SWIFT = {'今天': 0, '今日': 0, '明天': 1, '明日': 1, '昨天': -1, '昨日': -1, '后天': 2, '後天': 2, '大后天': 3, '大後天': 3, '前天': -2, '大前天': -3}


def h_zh_special(o: int, hh: int, mi: int):
    assert ORD_LO <= o <= ORD_HI and 0 <= hh <= 23 and 0 <= mi <= 59
    digits.reset()
    pr = run(ZDP.config.special_day_regex, {}, _ref(o, hh, mi), text=WORD)
    vals = _vals(pr)
    assert vals is not None and len(vals) == 1 and vals[0]['type'] == 'date'
    want = datetime.fromordinal(o + SWIFT[WORD])
    assert digits.ymd(vals[0]['value']) == (want.year, want.month, want.day), ('value', vals[0])
    assert digits.ymd(vals[0]['timex']) == (want.year, want.month, want.day), ('timex', vals[0])


# ---- audit of the real tables behind the one-entry stand-ins (concrete, exhaustive over keys) --------------------------------------------
def audit_zh_tables(slice_, timeout):
    from recognizers_date_time.date_time.chinese.date_parser import ChineseDateParser
    from recognizers_date_time.resources.chinese_date_time import ChineseDateTime
    p = ChineseDateParser()
    bad = []
    num = {'一': 1, '二': 2, '三': 3, '四': 4, '五': 5, '六': 6, '七': 7, '八': 8, '九': 9, '十': 10}

    def cjk(n):
        if n <= 10:
            return {v: k for k, v in num.items()}[n]
        t, u = divmod(n, 10)
        return ('' if t == 1 else {v: k for k, v in num.items()}[t]) + '十' + ('' if u == 0 else {v: k for k, v in num.items()}[u])
    dm = dict(p.config.day_of_month)
    for n in range(1, 32):
        for key in (str(n), '%02d' % n, cjk(n), str(n) + '日', str(n) + '号', cjk(n) + '日', cjk(n) + '号'):
            if key in dm and p.get_day_of_month(key) != n:
                bad.append(('day', key, p.get_day_of_month(key)))
        if str(n) not in dm or cjk(n) not in dm:
            bad.append(('day key missing', n))
    for key in dm:
        if not 1 <= p.get_day_of_month(key) <= 31:
            bad.append(('day out of range', key, p.get_day_of_month(key)))
    mo = dict(p.config.month_of_year)
    for n in range(1, 13):
        for key in (str(n), '%02d' % n, cjk(n) + '月', str(n) + '月'):
            if key in mo and p.get_month_of_year(key) != n:
                bad.append(('month', key, p.get_month_of_year(key)))
        if str(n) not in mo or (cjk(n) + '月') not in mo:
            bad.append(('month key missing', n))
    for key in mo:
        if not 1 <= p.get_month_of_year(key) <= 12:
            bad.append(('month out of range', key, p.get_month_of_year(key)))
    for w, n in (('一', 1), ('二', 2), ('三', 3), ('四', 4), ('五', 5), ('六', 6), ('日', 0), ('天', 0)):
        for pre in ('星期', '周', '礼拜'):
            if p.config.day_of_week.get(pre + w) != n:
                bad.append(('weekday', pre + w, p.config.day_of_week.get(pre + w)))
    for w, n in SWIFT.items():
        if p.config.get_swift_day(w) != n:
            bad.append(('swift', w, p.config.get_swift_day(w)))
    if bad:
        return {'state': 'counterexample', 'cex': {'first': repr(bad[0])}, 'detail': 'table entries disagree with the calendar: %r' % (bad[:6],), 'queries': len(dm) + len(mo)}
    return {'state': 'discharged', 'detail': '%d day keys, %d month keys, 24 weekday words, %d special-day words' % (len(dm), len(mo), len(SWIFT)), 'queries': len(dm) + len(mo),
            'sample': {'day_keys': len(dm), 'month_keys': len(mo)}}


def audit_zh_tables__replay(slice_, cex):
    r = audit_zh_tables(slice_, 0)
    return {'reproduced': r['state'] == 'counterexample', 'detail': r['detail']}
