"""C04 (Chinese / Japanese numerals): the real CJKNumberParser.get_int_value on numeral *shapes*.  An independent speller writes sample
numbers in CJK numerals; every digit character 1..9 is replaced by a placeholder character that a copy of the real zero_to_nine_map
maps to a symbolic value, round characters (十 百 千 万 亿 ...) and the zero character stay literal.  One symbolic run per shape decides
every numeral of that shape: the kernel must return what the independent positional evaluator gives."""
import importlib
import sys

from harness.common import *  # noqa
from harness import spell
from lib.symx import assume
from recognizers_number.number.cjk_parsers import CJKNumberParser

LANG = sl('lang', 'chinese')
SPELL, CULTURE, LIMIT = spell.SPELLERS[LANG]
_m = importlib.import_module('recognizers_number.number.%s.parsers' % LANG)
env.assert_repo(_m, CJKNumberParser)
CFG = getattr(_m, LANG.capitalize() + 'NumberParserConfiguration')()
PARSER = CJKNumberParser(CFG)
REAL_DIGITS = dict(CFG.zero_to_nine_map)
ROUND = dict(CFG.round_number_map_char)
CFG._zero_to_nine_map = dict(REAL_DIGITS)
PH = [chr(0xE100 + i) for i in range(16)]
KSAMPLE = sl('k', 400)
# numerals the extraction patterns do not cover (recorded findings, identified by the spelling)
def _ja_gap(t):
    """Japanese numerals the extraction pattern does not cover: a bare 百 / 千 (no digit in front) alone or anywhere after 万"""
    if t in ('百', '千'):
        return True
    if '万' not in t:
        return False
    tail = t[t.index('万'):]
    return any(c in '百千' and tail[i - 1] not in '一二三四五六七八九' for i, c in enumerate(tail) if i > 0)


KNOWN = {'japanese': ('F34', _ja_gap)}


def abstract(text):
    shape = []
    for c in text:
        if c in ROUND:
            shape.append(['R', c])
        elif c in REAL_DIGITS and 1 <= REAL_DIGITS[c] <= 9:
            shape.append('u')
        else:
            shape.append(['L', c])
    return shape


def shapes_for(k):
    seen, out = set(), []
    for n in spell.sample_numbers(LIMIT, k):
        if n == 0:
            continue
        t = SPELL(n)
        if LANG in KNOWN and KNOWN[LANG][1](t):
            continue
        sh = abstract(t)
        key = json.dumps(sh, ensure_ascii=False)
        if key not in seen:
            seen.add(key)
            out.append(sh)
    return out


def evaluate(items):
    rounds = [(it[1], i) for i, it in enumerate(items) if isinstance(it, tuple)]
    if not rounds:
        tot = 0
        for it in items:
            tot = tot + it
        return tot
    big = max(r[0] for r in rounds)
    i = [r[1] for r in rounds if r[0] == big][-1]        # the last of equal largest round characters closes the group
    left, right = items[:i], items[i + 1:]
    lv = evaluate(left) if left else 1
    return lv * big + evaluate(right)


ALL_SHAPES = shapes_for(KSAMPLE)
PART, NPARTS = sl('part', 0), sl('nparts', 1)
SHAPES = ALL_SHAPES[PART::NPARTS]


def instantiate(shape, vals):
    text, items, vi = '', [], 0
    dm = CFG._zero_to_nine_map
    for s in shape:
        if isinstance(s, list):
            text += s[1]
            if s[0] == 'R':
                items.append(('R', ROUND[s[1]]))
            continue
        v = vals[vi]
        assume(1 <= v and v <= 9)
        dm[PH[vi]] = v
        text += PH[vi]
        items.append(v)
        vi += 1
    return text, evaluate(items), vi


def h_int_value(si: int, v0: int, v1: int, v2: int, v3: int, v4: int, v5: int, v6: int, v7: int, v8: int, v9: int, v10: int, v11: int, v12: int, v13: int, v14: int):
    assume(0 <= si < len(SHAPES))
    shape = SHAPES[int(si)]
    vals = [v0, v1, v2, v3, v4, v5, v6, v7, v8, v9, v10, v11, v12, v13, v14]
    text, want, used = instantiate(shape, vals)
    assume(all(v == 0 for v in vals[used:]))
    got = PARSER.get_int_value(text)
    assert got == want, (shape,)


def t_int_value(si: int, v0: int, v1: int, v2: int, v3: int, v4: int, v5: int, v6: int, v7: int, v8: int, v9: int, v10: int, v11: int, v12: int, v13: int, v14: int):
    assume(0 <= si < len(SHAPES))
    shape = SHAPES[int(si)]
    vals = [v0, v1, v2, v3, v4, v5, v6, v7, v8, v9, v10, v11, v12, v13, v14]
    text, want, used = instantiate(shape, vals)
    assume(all(v == 0 for v in vals[used:]))
    assert PARSER.get_int_value(text) == 0


def validate(slice_, timeout):
    """composition check (not a verdict): every sample number in CJK numerals comes back from recognize_number as one entity with its
    value; its shape is in the verified set; the independent evaluator agrees with n on the real digit values"""
    from recognizers_number import recognize_number
    kf = bool(slice_.get('kf'))
    known = KNOWN.get(LANG)
    keys = set(json.dumps(s, ensure_ascii=False) for s in ALL_SHAPES)
    n_ok = 0
    for n in spell.sample_numbers(LIMIT, KSAMPLE):
        if n == 0:
            continue
        text = SPELL(n)
        if bool(known and known[1](text)) != kf:
            continue
        if not kf:
            if json.dumps(abstract(text), ensure_ascii=False) not in keys:
                return {'state': 'counterexample', 'cex': {'n': n, 'text': text}, 'detail': 'shape of %r is not in the verified set' % text, 'queries': n_ok}
            items = [('R', ROUND[c]) if c in ROUND else REAL_DIGITS[c] for c in text if c in ROUND or (c in REAL_DIGITS and REAL_DIGITS[c])]
            if evaluate(items) != n:
                return {'state': 'counterexample', 'cex': {'n': n, 'text': text}, 'detail': 'oracle evaluator gives %r for %r' % (evaluate(items), text), 'queries': n_ok}
        rs = recognize_number(text, CULTURE)
        if not (len(rs) == 1 and rs[0].text == text and rs[0].resolution['value'] == str(n)):
            return {'state': 'counterexample', 'cex': {'n': n, 'text': text},
                    'detail': 'recognize_number(%r, %s) -> %r, expected %d' % (text, CULTURE, [(r.text, r.resolution['value']) for r in rs], n), 'queries': n_ok}
        n_ok += 1
    if kf:
        return {'state': 'discharged', 'detail': 'no sample numeral in the known region fails any more (%d checked)' % n_ok, 'queries': n_ok}
    return {'state': 'discharged', 'detail': '%d sample numerals recognised with their value; %d shapes' % (n_ok, len(ALL_SHAPES)), 'queries': n_ok, 'sample': {'shapes': len(ALL_SHAPES)}}


def validate__replay(slice_, cex):
    from recognizers_number import recognize_number
    text, n = cex['text'], cex['n']
    rs = recognize_number(text, CULTURE)
    ok = len(rs) == 1 and rs[0].text == text and rs[0].resolution['value'] == str(n)
    return {'reproduced': not ok, 'detail': 'recognize_number(%r, %s) -> %r, expected %d' % (text, CULTURE, [(r.text, r.resolution['value']) for r in rs], n)}


def ja_witness(slice_, timeout):
    """API witnesses of the recorded Japanese findings beyond 万 (F34 extraction gap, F35 kernel)"""
    from recognizers_number import recognize_number
    w = slice_['w']
    text, n = {'F34': ('六万五千百五十七', 65157), 'F35': ('二百三万', 2030000)}[w]
    rs = recognize_number(text, 'ja-jp')
    ok = len(rs) == 1 and rs[0].text == text and rs[0].resolution['value'] == str(n)
    if ok:
        return {'state': 'discharged', 'detail': 'witness no longer fails', 'queries': 1}
    return {'state': 'counterexample', 'cex': {'w': w, 'text': text, 'n': n}, 'detail': 'recognize_number(%r, ja-jp) -> %r, expected %d' % (text, [(r.text, r.resolution['value']) for r in rs], n), 'queries': 1}


def ja_witness__replay(slice_, cex):
    r = ja_witness({'w': cex['w']}, 0)
    return {'reproduced': r['state'] == 'counterexample', 'detail': r['detail']}
