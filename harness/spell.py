"""Independent spellers of cardinal numbers (standard orthography) for the cultures of C04; used to obtain realistic token
shapes and concrete validation instances.  They share nothing with the library under test."""


def _join_millions(n, one, plural, below):
    m, r = divmod(n, 10 ** 6)
    parts = []
    if m:
        parts.append(one if m == 1 else below(m) + ' ' + plural)
    if r:
        parts.append(below(r))
    return ' '.join(parts)


def de(n):
    U = ['null', 'ein', 'zwei', 'drei', 'vier', 'fünf', 'sechs', 'sieben', 'acht', 'neun', 'zehn', 'elf', 'zwölf', 'dreizehn', 'vierzehn', 'fünfzehn',
         'sechzehn', 'siebzehn', 'achtzehn', 'neunzehn']
    T = ['', '', 'zwanzig', 'dreißig', 'vierzig', 'fünfzig', 'sechzig', 'siebzig', 'achtzig', 'neunzig']

    def b100(n, final):
        if n < 20:
            return 'eins' if (n == 1 and final) else U[n]
        u, t = n % 10, n // 10
        return (U[u] + 'und' if u else '') + T[t]

    def b1000(n, final=True):
        s = ''
        if n >= 100:
            s += U[n // 100] + 'hundert'
            n %= 100
        if n:
            s += b100(n, final)
        return s

    def below(n):
        s = ''
        if n >= 1000:
            s += b1000(n // 1000, False) + 'tausend'
            n %= 1000
        if n:
            s += b1000(n)
        return s
    if n == 0:
        return 'null'
    return _join_millions(n, 'eine million', 'millionen', below)


def nl(n):
    U = ['nul', 'een', 'twee', 'drie', 'vier', 'vijf', 'zes', 'zeven', 'acht', 'negen', 'tien', 'elf', 'twaalf', 'dertien', 'veertien', 'vijftien', 'zestien',
         'zeventien', 'achttien', 'negentien']
    T = ['', '', 'twintig', 'dertig', 'veertig', 'vijftig', 'zestig', 'zeventig', 'tachtig', 'negentig']

    def b100(n):
        if n < 20:
            return U[n]
        u, t = n % 10, n // 10
        if not u:
            return T[t]
        return U[u] + ('ën' if U[u].endswith('e') else 'en') + T[t]

    def b1000(n):
        s = ''
        if n >= 100:
            s += (U[n // 100] if n // 100 > 1 else '') + 'honderd'
            n %= 100
        if n:
            s += b100(n)
        return s

    def below(n):
        s = ''
        if n >= 1000:
            s += (b1000(n // 1000) if n // 1000 > 1 else '') + 'duizend'
            n %= 1000
            s += ' ' if n else ''
        if n:
            s += b1000(n)
        return s
    if n == 0:
        return 'nul'
    return _join_millions(n, 'een miljoen', 'miljoen', below)


def it(n):
    U = ['zero', 'uno', 'due', 'tre', 'quattro', 'cinque', 'sei', 'sette', 'otto', 'nove', 'dieci', 'undici', 'dodici', 'tredici', 'quattordici', 'quindici', 'sedici',
         'diciassette', 'diciotto', 'diciannove']
    T = ['', '', 'venti', 'trenta', 'quaranta', 'cinquanta', 'sessanta', 'settanta', 'ottanta', 'novanta']

    def b100(n):
        if n < 20:
            return U[n]
        u, t = n % 10, n // 10
        s = T[t]
        if u in (1, 8):
            s = s[:-1]
        if u == 3:
            return s + 'tré'
        return s + (U[u] if u else '')

    def b1000(n):
        s = ''
        if n >= 100:
            s += (U[n // 100] if n // 100 > 1 else '') + 'cento'
            n %= 100
        if n:
            s += b100(n)
        return s

    def below(n):
        s = ''
        if n >= 1000:
            s += 'mille' if n // 1000 == 1 else b1000(n // 1000) + 'mila'
            n %= 1000
        if n:
            s += b1000(n)
        return s
    if n == 0:
        return 'zero'
    return _join_millions(n, 'un milione', 'milioni', below)


def pt(n):
    U = ['zero', 'um', 'dois', 'três', 'quatro', 'cinco', 'seis', 'sete', 'oito', 'nove', 'dez', 'onze', 'doze', 'treze', 'catorze', 'quinze', 'dezesseis', 'dezessete',
         'dezoito', 'dezenove']
    T = ['', '', 'vinte', 'trinta', 'quarenta', 'cinquenta', 'sessenta', 'setenta', 'oitenta', 'noventa']
    H = ['', 'cento', 'duzentos', 'trezentos', 'quatrocentos', 'quinhentos', 'seiscentos', 'setecentos', 'oitocentos', 'novecentos']

    def b1000(n):
        if n == 100:
            return 'cem'
        p = []
        if n >= 100:
            p.append(H[n // 100])
            n %= 100
        if n >= 20:
            p.append(T[n // 10])
            if n % 10:
                p.append(U[n % 10])
        elif n:
            p.append(U[n])
        return ' e '.join(p)
    if n == 0:
        return 'zero'
    th, r = divmod(n % 10 ** 6, 1000)
    s = []
    if th:
        s.append('mil' if th == 1 else b1000(th) + ' mil')
    if r:
        if th and (r < 100 or r % 100 == 0):
            s.append('e ' + b1000(r))
        else:
            s.append(b1000(r))
    return ' '.join(s)


def fr(n):
    U = ['zéro', 'un', 'deux', 'trois', 'quatre', 'cinq', 'six', 'sept', 'huit', 'neuf', 'dix', 'onze', 'douze', 'treize', 'quatorze', 'quinze', 'seize', 'dix-sept',
         'dix-huit', 'dix-neuf']
    T = ['', '', 'vingt', 'trente', 'quarante', 'cinquante', 'soixante', 'soixante', 'quatre-vingt', 'quatre-vingt']

    def b100(n):
        if n < 20:
            return U[n]
        t, u = n // 10, n % 10
        if t in (7, 9):
            if t == 7 and u == 1:
                return 'soixante et onze'
            return T[t] + '-' + U[10 + u]
        if u == 0:
            return T[t] + ('s' if t == 8 else '')
        if u == 1 and t != 8:
            return T[t] + ' et un'
        return T[t] + '-' + U[u]

    def b1000(n, final=True):
        p = []
        if n >= 100:
            h, r = n // 100, n % 100
            p.append(('' if h == 1 else U[h] + ' ') + 'cent' + ('s' if (h > 1 and r == 0 and final) else ''))
            n = r
        if n:
            p.append(b100(n))
        return ' '.join(p)

    def below(n):
        th, r = divmod(n, 1000)
        s = []
        if th:
            s.append('mille' if th == 1 else b1000(th, False) + ' mille')
        if r:
            s.append(b1000(r))
        return ' '.join(s)
    if n == 0:
        return 'zéro'
    return _join_millions(n, 'un million', 'millions', below)


def es(n):
    U = ['cero', 'uno', 'dos', 'tres', 'cuatro', 'cinco', 'seis', 'siete', 'ocho', 'nueve', 'diez', 'once', 'doce', 'trece', 'catorce', 'quince', 'dieciséis', 'diecisiete',
         'dieciocho', 'diecinueve', 'veinte', 'veintiuno', 'veintidós', 'veintitrés', 'veinticuatro', 'veinticinco', 'veintiséis', 'veintisiete', 'veintiocho', 'veintinueve']
    T = ['', '', '', 'treinta', 'cuarenta', 'cincuenta', 'sesenta', 'setenta', 'ochenta', 'noventa']
    H = ['', 'ciento', 'doscientos', 'trescientos', 'cuatrocientos', 'quinientos', 'seiscientos', 'setecientos', 'ochocientos', 'novecientos']

    def b1000(n):
        if n == 100:
            return 'cien'
        w = []
        if n >= 100:
            w.append(H[n // 100])
            n %= 100
        if n >= 30:
            w.append(T[n // 10] + (' y ' + U[n % 10] if n % 10 else ''))
        elif n > 0:
            w.append(U[n])
        return ' '.join(w)

    def apoc(s):
        if s.endswith('veintiuno'):
            return s[:-9] + 'veintiún'
        if s.endswith('uno'):
            return s[:-3] + 'un'
        return s

    def below(n):
        th, r = divmod(n, 1000)
        w = []
        if th == 1:
            w.append('mil')
        elif th > 1:
            w.append(apoc(b1000(th)) + ' mil')
        if r:
            w.append(b1000(r))
        return ' '.join(w)
    if n == 0:
        return 'cero'
    m, r = divmod(n, 10 ** 6)
    parts = []
    if m:
        parts.append('un millón' if m == 1 else apoc(below(m)) + ' millones')
    if r:
        parts.append(below(r))
    return ' '.join(parts)


SPELLERS = {'german': (de, 'de-de', 10 ** 9), 'dutch': (nl, 'nl-nl', 10 ** 9), 'italian': (it, 'it-it', 10 ** 9), 'portuguese': (pt, 'pt-br', 10 ** 6),
            'french': (fr, 'fr-fr', 10 ** 9), 'spanish': (es, 'es-es', 10 ** 12)}


def sample_numbers(limit, k=400, seed=11):
    """boundary values and a seeded sample below `limit`"""
    import random
    rnd = random.Random(seed)
    ns = set(range(0, 131)) | {199, 200, 201, 999, 1000, 1001, 1100, 1101, 1999, 2000, 2001, 10000, 10001, 11000, 21000, 99999, 100000, 100001, 101000, 110000, 999999}
    e = 3
    while 10 ** e < limit:
        ns |= {10 ** e - 1, 10 ** e, 10 ** e + 1, 2 * 10 ** e, 10 ** e + 10 ** (e - 1), 10 ** e + 1000, 10 ** e + 1001, 10 ** e + 100, 2 * 10 ** e + 1100}
        e += 1
    for _ in range(k):
        d = rnd.randint(3, len(str(limit)) - 1)
        ns.add(rnd.randrange(10 ** (d - 1), 10 ** d))
    return sorted(x for x in ns if x < limit)


def _cjk_section(n, digits, units, one_before_unit):
    """a number 1..9999 in CJK numerals; internal zero runs -> zero char (only when `zero` is given in digits[0])"""
    out, started, gap = '', False, False
    for k in (3, 2, 1, 0):
        d = (n // 10 ** k) % 10
        if d == 0:
            if started and n % 10 ** k:
                gap = True
            continue
        if gap and digits[0]:
            out += digits[0]
        gap = False
        if d == 1 and k > 0 and not one_before_unit(k, started):
            out += units[k]
        else:
            out += digits[d] + units[k]
        started = True
    return out


def zh(n):
    D = ['零', '一', '二', '三', '四', '五', '六', '七', '八', '九']
    U = ['', '十', '百', '千']
    if n == 0:
        return '零'
    secs = []
    while n:
        secs.append(n % 10000)
        n //= 10000
    names = ['', '万', '亿', '万亿']
    out = ''
    top = len(secs) - 1
    for i in range(top, -1, -1):
        s = secs[i]
        if s == 0:
            continue
        # 一 is written before 十 except at the very start of the number (十二, but 一百一十, 二万零一十)
        part = _cjk_section(s, D, U, lambda k, started, first=(i == top): not (k == 1 and not started and first))
        if i < top and s < 1000 and out and not out.endswith('零'):
            out += '零'
        out += part + names[i]
    return out


def ja(n):
    D = ['', '一', '二', '三', '四', '五', '六', '七', '八', '九']
    U = ['', '十', '百', '千']
    if n == 0:
        return '零'
    secs = []
    while n:
        secs.append(n % 10000)
        n //= 10000
    names = ['', '万', '億', '兆']
    out = ''
    for i in range(len(secs) - 1, -1, -1):
        s = secs[i]
        if s == 0:
            continue
        # no 一 before 十 / 百 / 千 (千二百), except 一千 inside a higher section (一千万)
        part = _cjk_section(s, D, U, lambda k, started, hi=(i > 0): k == 3 and hi)
        out += part + names[i]
    return out


SPELLERS['chinese'] = (zh, 'zh-cn', 10 ** 12)
SPELLERS['japanese'] = (ja, 'ja-jp', 10 ** 4)     # beyond 万 the Japanese numerals run into the recorded findings F34 / F35
