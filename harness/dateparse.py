"""C06 / C08 / C09 / C11: the real BaseDateParser (+ BaseMergedParser resolution builder) driven through a
regex stub: exactly one designated pattern of the parser configuration "matches" the whole text and
yields a FakeMatch with chosen groups; every other pattern does not match.  From there on the real code
runs: match_to_date / parse_implicit_date, DateUtils, DateTimeFormatUtil, BaseDateParser.parse and
BaseMergedParser.parse -> final resolution values.
"""
from harness.dtcommon import *  # noqa
from recognizers_text.extractor import ExtractResult
from recognizers_date_time.date_time.english.merged_parser_config import EnglishMergedParserConfiguration
from recognizers_date_time.date_time.base_merged import BaseMergedParser
from recognizers_date_time.date_time.utilities import DateTimeOptions

DP = CFG.date_parser
MP = BaseMergedParser(EnglishMergedParserConfiguration(CFG), DateTimeOptions.NONE)
env.assert_repo(type(DP), BaseMergedParser)

MODE = sl('mode', 'full')      # full | noyear | special | next | this | last | weekday
M = sl('m', 1)
WORD = sl('word', 'today')
TOD = sl('tod', 0)             # 1: the reference carries a symbolic time of day
TEXT = 'x'


class FakeRegex:
    """stands in for the `regex` module inside base_date: only TARGET matches, with GROUPS"""
    def __init__(self):
        self.target = None
        self.groups = {}
        self.text = TEXT

    def _hit(self, pattern, s):
        if pattern is self.target:
            return FakeMatch(self.groups, text=self.text, start=len(s) - len(self.text))
        return None

    def search(self, pattern, s, *a, **k):
        return self._hit(pattern, s)

    def match(self, pattern, s, *a, **k):
        return self._hit(pattern, s)

    def finditer(self, pattern, s, *a, **k):
        m = self._hit(pattern, s)
        return iter([m] if m else [])

    def findall(self, pattern, s, *a, **k):
        return []


FR = FakeRegex()
REAL_REGEX = BASE_DATE.regex
BASE_DATE.regex = FR
SPY = []
_real_gen = DateUtils.generate_dates


def _gen(*a):
    r = _real_gen(*a)
    SPY.append(r)
    return r


DateUtils.generate_dates = staticmethod(_gen)


def run(target, groups, ref):
    FR.target, FR.groups = target, groups
    er = ExtractResult()
    er.start, er.length, er.text, er.type = 0, len(TEXT), TEXT, Constants.SYS_DATETIME_DATE
    return MP.parse(er, ref)


def values_of(pr):
    return pr.value['values'] if pr is not None and pr.value else None


def _rd_ok(ry, rmo, rd):
    """the reference day exists (symx: any day of the month; other engines: up to the 28th)"""
    if ENGINE == 'sx':
        from lib import symdate
        return rd <= symdate.days_in_month(ry, rmo)
    if ENGINE == 'native':
        return rd <= dim(ry, rmo)
    return rd <= 28


def _ref(ry, rmo, rd, hh, mi):
    if TOD:
        return datetime(ry, rmo, rd, hh, mi)
    return datetime(ry, rmo, rd)


def _set_tables(m, d):
    DP.config._month_of_year = {'M': m}
    DP.config._day_of_month = {'D': d}


# ---- C06: fully specified dates -------------------------------------------------------------------
def h_full_date(y: int, d: int, ry: int, rmo: int, rd: int, hh: int, mi: int):
    """year given as 4 digits; month M (slice), day d symbolic; any reference"""
    assert 1900 <= y <= 2099 and 1 <= d <= 31
    assert 1950 <= ry <= 2090 and 1 <= rmo <= 12 and 1 <= rd <= 31 and _rd_ok(ry, rmo, rd) and 0 <= hh <= 23 and 0 <= mi <= 59
    digits.reset()
    _set_tables(M, d)
    ref = _ref(ry, rmo, rd, hh, mi)
    pr = run(DP.config.date_regex[0], {'year': digits.ph(y, 4), 'month': 'M', 'day': 'D'}, ref)
    vals = values_of(pr)
    assert vals is not None and len(vals) == 1
    v = vals[0]
    assert pr.type == 'datetimeV2.date' and v['type'] == 'date'
    assert digits.ymd(v['timex']) == (y, M, d) and digits.ymd(pr.timex_str) == (y, M, d)
    if d <= dim(y, M):
        assert digits.ymd(v['value']) == (y, M, d)       # the date itself, whatever the reference
    else:
        assert v['value'] == 'not resolved'               # non-existent calendar date (C11)


def t_full_date(y: int, d: int, ry: int, rmo: int, rd: int, hh: int, mi: int):
    assert 1900 <= y <= 2099 and 1 <= d <= 28
    assert 1950 <= ry <= 2090 and 1 <= rmo <= 12 and 1 <= rd <= 31 and _rd_ok(ry, rmo, rd) and 0 <= hh <= 23 and 0 <= mi <= 59
    digits.reset()
    _set_tables(M, d)
    pr = run(DP.config.date_regex[0], {'year': digits.ph(y, 4), 'month': 'M', 'day': 'D'}, _ref(ry, rmo, rd, hh, mi))
    assert values_of(pr)[0]['value'] == 'not resolved'


# ---- C09: month and day without a year --------------------------------------------------------------
def _same_day_later(ry, rmo, rd, hh, mi, m, d):
    """known-finding region KF-C09-TOD: the expression names the reference's own calendar day and the
    reference carries a time of day > 00:00"""
    return TOD and (hh > 0 or mi > 0) and rmo == m and rd == d


def h_noyear(d: int, ry: int, rmo: int, rd: int, hh: int, mi: int):
    assert 1 <= d <= DIM_MAX[M] and not (M == 2 and d == 29)
    assert 1950 <= ry <= 2090 and 1 <= rmo <= 12 and 1 <= rd <= 31 and _rd_ok(ry, rmo, rd) and 0 <= hh <= 23 and 0 <= mi <= 59
    assert not _same_day_later(ry, rmo, rd, hh, mi, M, d)
    _noyear_body(d, ry, rmo, rd, hh, mi)


def h_noyear_kf(d: int, ry: int, rmo: int, rd: int, hh: int, mi: int):
    assert 1 <= d <= DIM_MAX[M] and not (M == 2 and d == 29)
    assert 1950 <= ry <= 2090 and 1 <= rmo <= 12 and 1 <= rd <= 31 and _rd_ok(ry, rmo, rd) and 0 <= hh <= 23 and 0 <= mi <= 59
    assert _same_day_later(ry, rmo, rd, hh, mi, M, d)
    _noyear_body(d, ry, rmo, rd, hh, mi)


DIM_MAX = [0, 31, 29, 31, 30, 31, 30, 31, 31, 30, 31, 30, 31]


def _noyear_body(d, ry, rmo, rd, hh, mi):
    digits.reset()
    del SPY[:]
    _set_tables(M, d)
    ref = _ref(ry, rmo, rd, hh, mi)
    today = datetime(ry, rmo, rd)
    pr = run(DP.config.date_regex[0], {'month': 'M', 'day': 'D'}, ref)
    vals = values_of(pr)
    assert vals is not None and len(vals) == 2
    past, fut = vals            # resolveToPast first, resolveToFuture second
    for v in (past, fut):
        assert v['type'] == 'date' and digits.same(digits.decode(v['timex']), ['XXXX-', (M, 2), '-', (d, 2)])
    assert len(SPY) == 1
    f, p = SPY[0]
    assert digits.ymd(fut['value']) == (f.year, f.month, f.day) and digits.ymd(past['value']) == (p.year, p.month, p.day)
    assert (f.month, f.day) == (M, d) and (p.month, p.day) == (M, d)
    assert p < today <= f                      # latest occurrence strictly before R's date, earliest on or after it
    assert f.year - p.year == 1                # consecutive occurrences


def h_feb29(ry: int, rmo: int, rd: int):
    """29 February without a year: the neighbouring leap days"""
    assert 1950 <= ry <= 2090 and 1 <= rmo <= 12 and 1 <= rd <= 31 and _rd_ok(ry, rmo, rd)
    digits.reset()
    del SPY[:]
    _set_tables(2, 29)
    ref = datetime(ry, rmo, rd)
    pr = run(DP.config.date_regex[0], {'month': 'M', 'day': 'D'}, ref)
    vals = values_of(pr)
    assert vals is not None and len(vals) == 2
    f, p = SPY[0]
    assert digits.ymd(vals[1]['value']) == (f.year, 2, 29) and digits.ymd(vals[0]['value']) == (p.year, 2, 29)
    assert f.year % 4 == 0 and p.year % 4 == 0 and f.year - p.year == 4      # 1950..2090: every 4th year is leap
    assert p < ref <= f


# ---- C08: today / tomorrow / yesterday ..., next / this / last <weekday>; C09: bare weekday ----------
SWIFT = {'today': 0, 'tomorrow': 1, 'tmr': 1, 'yesterday': -1, 'the day after tomorrow': 2, 'day after tomorrow': 2,
         'the day before yesterday': -2, 'day before yesterday': -2, 'the day after': 1, 'the day before': -1}


def h_special_day(ry: int, rd: int, hh: int, mi: int):
    assert 1950 <= ry <= 2090 and 1 <= rd <= DIM_NL[M] and 0 <= hh <= 23 and 0 <= mi <= 59
    digits.reset()
    ref = _ref(ry, M, rd, hh, mi)
    FR.text = WORD
    try:
        FR.target, FR.groups = DP.config.special_day_regex, {}
        er = ExtractResult()
        er.start, er.length, er.text, er.type = 0, len(WORD), WORD, Constants.SYS_DATETIME_DATE
        pr = MP.parse(er, ref)
    finally:
        FR.text = TEXT
    vals = values_of(pr)
    assert vals is not None and len(vals) == 1
    want = datetime(ry, M, rd) + timedelta(days=SWIFT[WORD])
    v = vals[0]
    assert v['type'] == 'date'
    # the parser's own datetime (before rendering) is compared with R's date + swift at day level
    dv = DP_LAST[0]
    assert dv == want
    assert digits.ymd(v['value']) == (dv.year, dv.month, dv.day) and digits.ymd(v['timex']) == (dv.year, dv.month, dv.day)


DIM_NL = [0, 31, 28, 31, 30, 31, 30, 31, 31, 30, 31, 30, 31]
DP_LAST = [None]
_real_parse_implicit = type(DP).parse_implicit_date


def _spy_implicit(self, source, reference):
    r = _real_parse_implicit(self, source, reference)
    DP_LAST[0] = r.future_value
    DP_LAST.append(r.past_value)
    del DP_LAST[2:]
    DP_LAST[1:] = [r.past_value]
    return r


type(DP).parse_implicit_date = _spy_implicit

WSPY = []


def _wspy(f):
    def w(*a):
        r = f(*a)
        WSPY.append(r)
        return r
    return staticmethod(w)


DateUtils.this = _wspy(DateUtils.this)
DateUtils.next = _wspy(DateUtils.next)
WD = sl('wd', 1)       # ISO weekday 1..7 of the expression; the English table maps sunday -> 0


def _wd_table():
    DP.config._day_of_week = {'W': (0 if WD == 7 else WD)}


def h_rel_weekday(ry: int, rd: int, hh: int, mi: int):
    """next / this / last <weekday>: that weekday of the following / current / preceding ISO week"""
    assert 1950 <= ry <= 2090 and 1 <= rd <= DIM_NL[M] and 0 <= hh <= 23 and 0 <= mi <= 59
    digits.reset()
    _wd_table()
    ref = _ref(ry, M, rd, hh, mi)
    target = {'next': DP.config.next_regex, 'this': DP.config.this_regex, 'last': DP.config.last_regex}[MODE]
    pr = run(target, {'weekday': 'W'}, ref)
    vals = values_of(pr)
    assert vals is not None and len(vals) == 1
    v = vals[0]
    dv = DP_LAST[0]
    assert digits.ymd(v['value']) == (dv.year, dv.month, dv.day) and digits.ymd(v['timex']) == (dv.year, dv.month, dv.day)
    today = datetime(ry, M, rd)
    monday = today - timedelta(days=today.weekday())          # Monday of R's ISO week
    shift = {'next': 7, 'this': 0, 'last': -7}[MODE]
    want = monday + timedelta(days=shift + WD - 1)
    assert dv - timedelta(hours=dv.hour, minutes=dv.minute) == want      # same calendar day


def h_bare_weekday(ry: int, rd: int, hh: int, mi: int):
    """'Friday': the latest such weekday strictly before R's date and the earliest on or after it; TIMEX XXXX-WXX-d"""
    assert 1950 <= ry <= 2090 and 1 <= rd <= DIM_NL[M] and 0 <= hh <= 23 and 0 <= mi <= 59
    _bare_weekday_body(ry, rd, hh, mi)


def _bare_weekday_body(ry, rd, hh, mi):
    digits.reset()
    _wd_table()
    del WSPY[:]
    ref = _ref(ry, M, rd, hh, mi)
    pr = run(DP.config.week_day_regex, {'weekday': 'W'}, ref)
    vals = values_of(pr)
    assert vals is not None and len(vals) == 2
    past, fut = vals
    for v in (past, fut):
        assert v['type'] == 'date' and v['timex'] == 'XXXX-WXX-' + str(WD)
    f, p = DP_LAST[0], DP_LAST[1]
    assert digits.ymd(fut['value']) == (f.year, f.month, f.day) and digits.ymd(past['value']) == (p.year, p.month, p.day)
    # f and p are rebuilt by the parser from the year/month/day of `base +- 7 days`, where base is what DateUtils.this/next
    # returned (spied; same time of day as the reference).  Checking the arithmetic on base keeps the solver at day-number level.
    base = WSPY[-1]
    assert base.isoweekday() == WD
    delta = base - ref
    assert timedelta(days=0) <= delta <= timedelta(days=6)          # the earliest such weekday on or after R's date
    fexp = base
    pexp = base - timedelta(days=7)                                   # hence the latest strictly before R's date
    assert (f.year, f.month, f.day) == (fexp.year, fexp.month, fexp.day)
    assert (p.year, p.month, p.day) == (pexp.year, pexp.month, pexp.day)


def t_weekday(ry: int, rd: int, hh: int, mi: int):
    assert 1950 <= ry <= 2090 and 1 <= rd <= DIM_NL[M] and 0 <= hh <= 23 and 0 <= mi <= 59
    digits.reset()
    _wd_table()
    pr = run(DP.config.week_day_regex, {'weekday': 'W'}, _ref(ry, M, rd, hh, mi))
    assert values_of(pr) is None


# ---- symx variants: the reference is given by its day number (all dates 1950-01-01 .. 2090-12-31 at once) ----------
ORD_LO, ORD_HI = 711858, 763363


def _ref_o(o, hh, mi):
    return datetime.fromordinal(o) + timedelta(hours=hh, minutes=mi)


def s_bare_weekday(o: int, hh: int, mi: int):
    assert ORD_LO <= o <= ORD_HI and 0 <= hh <= 23 and 0 <= mi <= 59
    digits.reset()
    _wd_table()
    del WSPY[:]
    ref = _ref_o(o, hh, mi)
    today = datetime.fromordinal(o)
    pr = run(DP.config.week_day_regex, {'weekday': 'W'}, ref)
    vals = values_of(pr)
    assert vals is not None and len(vals) == 2
    past, fut = vals
    for v in (past, fut):
        assert v['type'] == 'date' and v['timex'] == 'XXXX-WXX-' + str(WD)
    f, p = DP_LAST[0], DP_LAST[1]
    assert digits.ymd(fut['value']) == (f.year, f.month, f.day) and digits.ymd(past['value']) == (p.year, p.month, p.day)
    assert f.isoweekday() == WD and p.isoweekday() == WD
    assert p < today <= f and f - p == timedelta(days=7)


def s_rel_weekday(o: int, hh: int, mi: int):
    assert ORD_LO <= o <= ORD_HI and 0 <= hh <= 23 and 0 <= mi <= 59
    digits.reset()
    _wd_table()
    ref = _ref_o(o, hh, mi)
    target = {'next': DP.config.next_regex, 'this': DP.config.this_regex, 'last': DP.config.last_regex}[MODE]
    pr = run(target, {'weekday': 'W'}, ref)
    vals = values_of(pr)
    assert vals is not None and len(vals) == 1
    v = vals[0]
    dv = DP_LAST[0]
    assert digits.ymd(v['value']) == (dv.year, dv.month, dv.day) and digits.ymd(v['timex']) == (dv.year, dv.month, dv.day)
    today = datetime.fromordinal(o)
    monday = today - timedelta(days=today.weekday())          # Monday of R's ISO week
    shift = {'next': 7, 'this': 0, 'last': -7}[MODE]
    want = monday + timedelta(days=shift + WD - 1)
    assert dv.toordinal() == want.toordinal()


def s_special_day(o: int, hh: int, mi: int):
    assert ORD_LO <= o <= ORD_HI and 0 <= hh <= 23 and 0 <= mi <= 59
    digits.reset()
    ref = _ref_o(o, hh, mi)
    FR.text = WORD
    try:
        FR.target, FR.groups = DP.config.special_day_regex, {}
        er = ExtractResult()
        er.start, er.length, er.text, er.type = 0, len(WORD), WORD, Constants.SYS_DATETIME_DATE
        pr = MP.parse(er, ref)
    finally:
        FR.text = TEXT
    vals = values_of(pr)
    assert vals is not None and len(vals) == 1
    v = vals[0]
    assert v['type'] == 'date'
    dv = DP_LAST[0]
    assert dv == datetime.fromordinal(o) + timedelta(days=SWIFT[WORD])
    assert digits.ymd(v['value']) == (dv.year, dv.month, dv.day) and digits.ymd(v['timex']) == (dv.year, dv.month, dv.day)
