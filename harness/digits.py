"""Symbolic-digit strings: run the real string/regex code on numbers whose value is symbolic.

The TIMEX datatype parses with stdlib `re` patterns that only ever test *digit-ness* (`\\d`), never a
particular digit.  A number field of width w whose value is a symbolic int is therefore written as w
copies of one non-ASCII Unicode decimal digit (category Nd) that is unique to the field; the real
`re` engine, `str.find`, `split`, `startswith` run natively on that concrete string, and the value
rides along in a registry:  int(<placeholder>) -> the symbolic int (module-global `int` of the module
under test is patched to `unint`), fixed_format_number(n, w) -> a fresh placeholder (patched to
`fixed`).  `digit_independent(pattern)` checks the premise on the real pattern on every run.
"""
import re
import unicodedata

try:
    import re._parser as sre_parse
    import re._constants as sre_c
except ImportError:  # py < 3.11
    import sre_parse
    import sre_constants as sre_c

DIG = [chr(c) for c in range(0x660, 0x1FFFF) if unicodedata.category(chr(c)) == 'Nd']
IDX = {c: i for i, c in enumerate(DIG)}
REG = []
FREE_WIDTH = [False]     # render str(n) / f'{n}' of a symbolic n as a free-width placeholder instead of concretising n
SEMANTIC_MERGE = [True]   # harnesses whose code under test never compares rendered numbers may switch this off


def reset():
    del REG[:]


def _equal(v, value):
    """are two rendered numbers the same number?  CrossHair: symbolic ==, forking when both are possible.  symx: decided
    without forking -- syntactically, else by the solver within a small budget; when both outcomes are possible the two
    renderings are kept apart (distinct placeholders compare unequal, exactly like the digits of two numbers that differ),
    and that is only wrong on inputs where they coincide *and* the code under test compares the rendered texts -- such
    undecided pairs are counted and reported in the evidence (`undecided_equalities`)."""
    try:
        from lib import symx
    except ImportError:
        symx = None
    if symx is not None and symx.ENGINE is not None and (symx.is_sym(v) or symx.is_sym(value)):
        r = symx.ENGINE.quick_equal(symx._t(v), symx._t(value))
        return bool(r)
    return v == value


def ph(value, width):
    """placeholder text for `value` rendered with `width` digits.  Two renderings of equal values with the same
    width must be equal strings (the code under test compares and sorts rendered values), so an existing
    placeholder is reused when the value is the same object or -- decided by the solver, forking if both are
    possible -- an equal number."""
    for k, (v, w) in enumerate(REG):
        if w == width and v is value:
            return DIG[k] * max(width, 1)
    if SEMANTIC_MERGE[0]:
        for k, (v, w) in enumerate(REG):
            if w == width and _equal(v, value):
                return DIG[k] * max(width, 1)
    k = len(REG)
    REG.append((value, width))
    return DIG[k] * max(width, 1)


def fixed(n, size):
    """stub of `str(n).rjust(size, '0')` for 0 <= n < 10**size; otherwise the real rendering"""
    if 0 <= n < 10 ** size:
        return ph(n, size)
    return str(n).rjust(size, '0')


def unint(s, *a):
    if isinstance(s, str) and s and s[0] in IDX:
        k = IDX[s[0]]
        if s != s[0] * len(s) or len(s) != max(REG[k][1], 1):
            raise ValueError('placeholder cut in pieces: %r' % (s,))
        return REG[k][0]
    if type(s).__name__ in ('SymInt', 'SymbolicInt', 'SymbolicBoundedInt'):
        return s              # int() of an already symbolic integer is that integer (no concretisation)
    return int(s, *a)


def decode(s):
    """-> list of literal pieces (str) and (value, width) items"""
    out = []
    lit = ''
    i = 0
    while i < len(s):
        c = s[i]
        if c in IDX:
            j = i
            while j < len(s) and s[j] == c:
                j += 1
            if lit:
                out.append(lit)
                lit = ''
            if REG[IDX[c]][1] == 0:
                j = i + 1
                out.append((REG[IDX[c]][0], 0))      # free-width rendering (str(n))
            else:
                out.append((REG[IDX[c]][0], j - i))
            i = j
        else:
            lit += c
            i += 1
    if lit:
        out.append(lit)
    return out


def _norm(items):
    """split literal pieces so that every ASCII digit is a width-1 number item (a number the code rendered itself)"""
    out = []
    for it in items:
        if isinstance(it, str):
            cur = ''
            for c in it:
                if c in '0123456789':
                    if cur:
                        out.append(cur)
                        cur = ''
                    out.append((ord(c) - 48, 1, 'c'))
                else:
                    cur += c
            if cur:
                out.append(cur)
        else:
            out.append(it)
    return out


def same(a, b):
    """decoded strings equal: same literals, same widths, equal (possibly symbolic) values"""
    a, b = _join(_norm(a)), _join(_norm(b))
    if len(a) != len(b):
        return False
    for x, y in zip(a, b):
        if isinstance(x, str) or isinstance(y, str):
            if not (isinstance(x, str) and isinstance(y, str) and x == y):
                return False
        else:
            if x[1] != y[1] and x[1] != 0 and y[1] != 0:
                return False
            if not (x[0] == y[0]):
                return False
    return True


def digit_independent(pattern):
    """True iff the regex mentions digits only through the category \\d (no literal digit, no digit range)"""
    def walk(items):
        for op, av in items:
            if op is sre_c.LITERAL or op is sre_c.NOT_LITERAL:
                if chr(av).isdigit():
                    return False
            elif op is sre_c.IN:
                for o2, a2 in av:
                    if o2 is sre_c.LITERAL and chr(a2).isdigit():
                        return False
                    if o2 is sre_c.RANGE and any(chr(c).isdigit() for c in range(a2[0], min(a2[1], a2[0] + 300) + 1)):
                        return False
                    if o2 is sre_c.CATEGORY and a2 not in (sre_c.CATEGORY_DIGIT,):
                        return False
            elif op is sre_c.SUBPATTERN:
                if not walk(av[3]):
                    return False
            elif op is sre_c.BRANCH:
                for alt in av[1]:
                    if not walk(alt):
                        return False
            elif op in (sre_c.MAX_REPEAT, sre_c.MIN_REPEAT):
                if not walk(av[2]):
                    return False
            elif op is sre_c.AT or op is sre_c.ANY:
                pass
            else:
                return False
        return True
    return walk(sre_parse.parse(pattern))


def template(pattern):
    """Derive from the real regex source the list of pieces a member string is made of:
    literal str | ('num', group, width) | ('enum', group, [alternatives]) | ('amount', group).
    Returns None when the pattern has a construct outside this fragment (-> not encodable)."""
    out = []

    def lit_of(items):
        s = ''
        for op, av in items:
            if op is not sre_c.LITERAL:
                return None
            s += chr(av)
        return s

    def is_digit(item):
        op, av = item
        return op is sre_c.IN and len(av) == 1 and av[0] == (sre_c.CATEGORY, sre_c.CATEGORY_DIGIT)

    for op, av in sre_parse.parse(pattern):
        if op is sre_c.AT:
            continue
        if op is sre_c.LITERAL:
            if out and isinstance(out[-1], str):
                out[-1] += chr(av)
            else:
                out.append(chr(av))
            continue
        if op is sre_c.SUBPATTERN:
            gid, _, _, body = av
            name = None
            for n, g in sre_parse.parse(pattern).state.groupdict.items():
                if g == gid:
                    name = n
            body = list(body)
            if body and all(is_digit(b) for b in body):
                out.append(('num', name, len(body)))
                continue
            if len(body) == 1 and body[0][0] is sre_c.BRANCH:
                alts = [lit_of(a) for a in body[0][1][1]]
                # sre factors common prefixes out of alternations: handle a leading literal + branch
                if all(a is not None for a in alts):
                    out.append(('enum', name, alts))
                    continue
            l = lit_of(body)
            if l is not None:
                out.append(('enum', name, [l]))
                continue
            # prefix-factored alternation e.g. S(?:P|U) -> literals followed by IN/BRANCH
            alts = expand(body)
            if alts is not None:
                out.append(('enum', name, alts))
                continue
            if name == 'amount':
                out.append(('amount', name))
                continue
            return None
        return None
    return out


def expand(items):
    """all strings of a small literal/alternation/class sub-pattern, or None"""
    res = ['']
    for op, av in items:
        if op is sre_c.LITERAL:
            res = [r + chr(av) for r in res]
        elif op is sre_c.IN:
            cs = []
            for o2, a2 in av:
                if o2 is sre_c.LITERAL:
                    cs.append(chr(a2))
                else:
                    return None
            res = [r + c for r in res for c in cs]
        elif op is sre_c.BRANCH:
            subs = []
            for alt in av[1]:
                e = expand(alt)
                if e is None:
                    return None
                subs += e
            res = [r + s for r in res for s in subs]
        elif op is sre_c.SUBPATTERN:
            e = expand(av[3])
            if e is None:
                return None
            res = [r + s for r in res for s in e]
        else:
            return None
        if len(res) > 64:
            return None
    return res


# ---- f-string / format() hook ---------------------------------------------------------------------
_HOOKED = [False]


def install_format_hook():
    """Make CrossHair's symbolic int render `format(n, '02d')` / f'{n:04d}' / '{:02d}'.format(n) as a placeholder
    (CrossHair otherwise realises n, i.e. enumerates its values one path each).  For 0 <= n < 10**w the real
    rendering is exactly w digits denoting n, which is what the placeholder (n, w) stands for; any other case
    falls through to the real formatting."""
    if _HOOKED[0]:
        return
    import crosshair.core_and_libs  # noqa: F401  (registers CrossHair's own patches first)
    from crosshair import core
    from crosshair.libimpl import builtinslib
    from crosshair.tracers import NoTracing
    orig = core._PATCH_REGISTRATIONS[format]

    def fmt(obj, spec=''):
        with NoTracing():
            hit = isinstance(spec, str) and len(spec) == 3 and spec[0] == '0' and spec[1] in '123456789' and spec[2] == 'd' \
                and isinstance(obj, builtinslib.SymbolicInt)
        if hit:
            w = int(spec[1])
            if 0 <= obj < 10 ** w:
                return ph(obj, w)
        return orig(obj, spec)
    core._PATCH_REGISTRATIONS[format] = fmt
    _HOOKED[0] = True


def ymd(s):
    """'YYYY-MM-DD' -> (y, m, d) as recorded values / ints, or None if the shape differs"""
    d = _join(_norm(decode(s)))
    if len(d) == 5 and d[1] == '-' and d[3] == '-' and not isinstance(d[0], str) and not isinstance(d[2], str) \
            and not isinstance(d[4], str) and (d[0][1], d[2][1], d[4][1]) == (4, 2, 2):
        return d[0][0], d[2][0], d[4][0]
    return None


def _join(items):
    """merge adjacent literal digits (real digits the code printed, tagged 'c' by _norm) into one number item"""
    out = []
    for it in items:
        if (not isinstance(it, str)) and len(it) == 3 and out and (not isinstance(out[-1], str)) and len(out[-1]) == 3:
            out[-1] = (out[-1][0] * 10 + it[0], out[-1][1] + 1, 'c')
        elif isinstance(it, str) and out and isinstance(out[-1], str):
            out[-1] = out[-1] + it
        else:
            out.append(it)
    return [(i[0], i[1]) if not isinstance(i, str) else i for i in out]


def hms(s):
    """'HH:MM:SS' -> (h, m, s) or None"""
    d = _join(_norm(decode(s)))
    if len(d) == 5 and d[1] == ':' and d[3] == ':' and all(not isinstance(d[i], str) and d[i][1] == 2 for i in (0, 2, 4)):
        return d[0][0], d[2][0], d[4][0]
    return None


def install_symx_hook():
    """the same rendering rule for symx proxies: f'{n:02d}' of a symbolic n in range -> placeholder; str(n) -> concretised"""
    from lib import symx

    def fmt(obj, spec):
        if len(spec) == 3 and spec[0] == '0' and spec[1] in '123456789' and spec[2] == 'd':
            w = int(spec[1])
            if 0 <= obj < 10 ** w:
                return ph(obj, w)
        if spec == '' and FREE_WIDTH[0]:
            return ph(obj, 0)
        return format(int(obj), spec)
    symx.FORMAT_HOOK[0] = fmt
    if reset not in symx.RESET_HOOKS:
        symx.RESET_HOOKS.append(reset)
