"""C15 -- TIMEX resolution: harnesses over the real datatypes_timex_expression code."""
import sys

from harness.common import *  # noqa
from harness import marks

ENGINE = os.environ.get('VERIF_ENGINE', 'native')
if ENGINE == 'sx':
    # symx: the timex modules get the symbolic calendar classes (lib/symdate.py)
    import datatypes_timex_expression  # noqa: F401
    from lib import symx, symdate
    from datetime import date as _rdate, datetime as _rdatetime, timedelta as _rtd
    symx.RESET_HOOKS.append(symdate.reset)
    for _n in ('timex', 'timex_helpers', 'timex_range_resolver', 'timex_date_helpers', 'timex_resolver'):
        _m = sys.modules['datatypes_timex_expression.' + _n]
        for _a, _real, _sym in (('date', _rdate, symdate.sdatetime), ('datetime', _rdatetime, symdate.sdatetime), ('timedelta', _rtd, symdate.stimedelta)):
            if getattr(_m, _a, None) is _real:
                setattr(_m, _a, _sym)
    datetime, timedelta = symdate.sdatetime, symdate.stimedelta
else:
    from datetime import datetime, timedelta
from datatypes_timex_expression import Timex
from datatypes_timex_expression.timex_resolver import TimexResolver
from datatypes_timex_expression.timex_value import TimexValue
from datatypes_timex_expression.timex_date_helpers import TimexDateHelpers

env.assert_repo(Timex, TimexResolver, TimexValue, TimexDateHelpers)

# formatting stubs (see harness/marks.py); the real renderer is checked by h_fixed_format
REAL_FIXED = TimexDateHelpers.fixed_format_number
TimexDateHelpers.fixed_format_number = staticmethod(marks.fixed)
sys.modules['datatypes_timex_expression.timex_value'].str = marks.free
# the duration obligations stub the TIMEX re-rendering of the amount ('P{}D'.format(n) realises the symbolic int);
# format_duration itself is covered by C14
from datatypes_timex_expression.timex_format import TimexFormat
REAL_FORMAT_DURATION = TimexFormat.format_duration

M = sl('m', 1)
DOW = sl('dow', 1)
DIM_NONLEAP = [0, 31, 28, 31, 30, 31, 30, 31, 31, 30, 31, 30, 31]
SPY = []


def _spy(f):
    def w(*a):
        r = f(*a)
        SPY.append(r)
        return r
    return staticmethod(w)


TimexDateHelpers.date_of_last_day = _spy(TimexDateHelpers.date_of_last_day)
TimexDateHelpers.date_of_next_day = _spy(TimexDateHelpers.date_of_next_day)
UNIT = sl('unit', 'days')
UNIT_SECONDS = {'years': 365 * 86400, 'months': 30 * 86400, 'weeks': 7 * 86400, 'days': 86400,
                'hours': 3600, 'minutes': 60, 'seconds': 1}


def h_fixed_format(n: int, size: int):
    """the real zero-padding renderer: exactly `size` digits denoting n"""
    assert 0 <= n <= 9999 and 1 <= size <= 4 and n < 10 ** size
    s = REAL_FIXED(n, size)
    assert len(s) == size and int(s) == n
    assert all(c in '0123456789' for c in s)


# ---- O15.1 weekday TIMEX -> that weekday immediately before and after the reference -----------
def h_weekday(ry: int, rd: int):
    assert 1950 <= ry <= 2090 and 1 <= rd <= DIM_NONLEAP[M]
    dow = DOW
    if sl('feb29'):          # leap days: the year is 4*k (every such year in 1950..2090 is a leap year), day 29
        ry, rd = 4 * (ry // 4), 29
    marks.reset()
    del SPY[:]
    ref = datetime(ry, M, rd)
    es = TimexResolver.resolve_timex(Timex(day_of_week=dow), ref)
    assert len(es) == 2
    assert es[0].type == 'date' and es[1].type == 'date'
    assert es[0].timex == es[1].timex and es[0].timex == 'XXXX-WXX-' + '1234567'[dow - 1]
    # the dates the resolver computed, taken before they are rendered (spy on the real helpers; if a refactoring
    # stops calling them the dates are rebuilt from the rendered fields, which is slower but equivalent)
    ly, lm, ld = marks.ymd(es[0].value)
    ny, nm, nd = marks.ymd(es[1].value)
    if len(SPY) == 2:
        a, b = SPY
        assert (ly, lm, ld) == (a.year, a.month, a.day) and (ny, nm, nd) == (b.year, b.month, b.day)
    else:
        a, b = datetime(ly, lm, ld), datetime(ny, nm, nd)
    assert a.isoweekday() == dow and b.isoweekday() == dow
    assert timedelta(days=1) <= ref - a <= timedelta(days=7)      # nearest such weekday strictly before
    assert timedelta(days=1) <= b - ref <= timedelta(days=7)      # nearest such weekday strictly after


def t_weekday(ry: int, rd: int):
    assert 1950 <= ry <= 2090 and 1 <= rd <= DIM_NONLEAP[M]
    dow = DOW
    marks.reset()
    es = TimexResolver.resolve_timex(Timex(day_of_week=dow), datetime(ry, M, rd))
    assert marks.ymd(es[1].value) is None


def h_day_helpers(ry: int, rd: int, day: int):
    assert 1950 <= ry <= 2090 and 1 <= rd <= dim(ry, M) and 0 <= day <= 6
    ref = datetime(ry, M, rd)
    a = TimexDateHelpers.date_of_last_day(day, ref)
    b = TimexDateHelpers.date_of_next_day(day, ref)
    assert a.weekday() == day and b.weekday() == day
    assert timedelta(days=1) <= ref - a <= timedelta(days=7)
    assert timedelta(days=1) <= b - ref <= timedelta(days=7)


# ---- O15.2 durations -----------------------------------------------------------------------
def h_duration(n: int):
    assert 1 <= n <= 1000000
    marks.reset()
    TimexFormat.format_duration = staticmethod(lambda timex: 'P?')
    es = TimexResolver.resolve_timex(Timex(**{UNIT: n}), None)
    assert len(es) == 1 and es[0].type == 'duration'
    d = marks.decode(es[0].value)
    assert len(d) == 1 and d[0][0] == n * UNIT_SECONDS[UNIT]


def t_duration(n: int):
    assert 1 <= n <= 1000000
    marks.reset()
    TimexFormat.format_duration = staticmethod(lambda timex: 'P?')
    es = TimexResolver.resolve_timex(Timex(**{UNIT: n}), None)
    assert es[0].type != 'duration'


# ---- O15.3 year / month ranges ----------------------------------------------------------------
def h_month_range(y: int, m: int):
    assert 1 <= y <= 9998 and 1 <= m <= 12
    marks.reset()
    es = TimexResolver.resolve_timex(Timex(year=y, month=m), None)
    assert len(es) == 1 and es[0].type == 'daterange'
    assert marks.ymd(es[0].start) == (y, m, 1)
    assert marks.ymd(es[0].end) == ((y, m + 1, 1) if m < 12 else (y + 1, 1, 1))
    assert marks.fields(es[0].timex, ['N4', '-', 'N2']) == [y, m]


def t_month_range(y: int, m: int):
    assert 1 <= y <= 9998 and 1 <= m <= 12
    marks.reset()
    es = TimexResolver.resolve_timex(Timex(year=y, month=m), None)
    assert es[0].start == ''


def h_open_month_range(ry: int, m: int):
    """XXXX-MM resolves to that month of last year and of this year."""
    assert 1950 <= ry <= 2090 and 1 <= m <= 12
    marks.reset()
    es = TimexResolver.resolve_timex(Timex(month=m), datetime(ry, 6, 15))
    assert len(es) == 2
    for k in (0, 1):
        y = ry - 1 + k
        assert es[k].type == 'daterange'
        assert marks.ymd(es[k].start) == (y, m, 1)
        assert marks.ymd(es[k].end) == ((y, m + 1, 1) if m < 12 else (y + 1, 1, 1))


def h_year_range(y: int):
    assert 1 <= y <= 9998
    marks.reset()
    es = TimexResolver.resolve_timex(Timex(year=y), None)
    assert len(es) == 1 and es[0].type == 'daterange'
    assert marks.ymd(es[0].start) == (y, 1, 1)
    assert marks.ymd(es[0].end) == (y + 1, 1, 1)


# ---- O15.4 ISO week ranges --------------------------------------------------------------------
def h_week_range(y: int, w: int):
    assert 1950 <= y <= 2090 and 1 <= w <= 52
    marks.reset()
    del SPY[:]
    es = TimexResolver.resolve_timex(Timex(year=y, week_of_year=w), None)
    assert len(es) == 1 and es[0].type == 'daterange'
    sy, sm, sd = marks.ymd(es[0].start)
    ey, em, ed = marks.ymd(es[0].end)
    if len(SPY) == 2:      # the two dates before rendering (see h_weekday)
        s, e = SPY
        assert (sy, sm, sd) == (s.year, s.month, s.day) and (ey, em, ed) == (e.year, e.month, e.day)
    else:
        s, e = datetime(sy, sm, sd), datetime(ey, em, ed)
    assert s.weekday() == 0
    assert e - s == timedelta(days=7)
    # ISO 8601: week 1 is the week that contains 4 January, so week w contains 4 January + 7(w-1) days
    anchor = datetime(y, 1, 4) + timedelta(days=7 * (w - 1))
    assert s <= anchor < e


def t_week_range(y: int, w: int):
    assert 1950 <= y <= 2090 and 1 <= w <= 52
    marks.reset()
    es = TimexResolver.resolve_timex(Timex(year=y, week_of_year=w), None)
    assert es[0].start == ''
