"""C05 for the other cultures: the same unit-key assembly / table lookup obligations as harness/C05.py, with the parser
configuration, resource class and table wiring of the culture named in the slice."""
import importlib

from harness.common import *  # noqa
from lib.symx import assume
from recognizers_text.extractor import ExtractResult
from recognizers_text.parser import ParseResult
from recognizers_number_with_unit.number_with_unit.parsers import NumberWithUnitParser, BaseCurrencyParser
from recognizers_number_with_unit.number_with_unit.constants import Constants as UC

LANG = sl('lang', 'french')
KIND = sl('kind', 'currency')
NAMES = {'french': 'French', 'spanish': 'Spanish', 'portuguese': 'Portuguese', 'german': 'German', 'italian': 'Italian', 'dutch': 'Dutch', 'chinese': 'Chinese', 'english': 'English'}
_pm = importlib.import_module('recognizers_number_with_unit.number_with_unit.%s.parsers' % LANG)
_rm = importlib.import_module('recognizers_number_with_unit.resources.%s_numeric_with_unit' % LANG)
R = getattr(_rm, NAMES[LANG] + 'NumericWithUnit')
env.assert_repo(_pm, _rm, NumberWithUnitParser)
CFG = getattr(_pm, NAMES[LANG] + KIND.capitalize() + 'ParserConfiguration')()

# the tables of each entity type, read from the resource class by name (independent of the configuration's own wiring)
WIRING = {'currency': ['CurrencySuffixList', 'CurrencyPrefixList'],
          'dimension': ['InformationSuffixList', 'AreaSuffixList', 'LengthSuffixList', 'SpeedSuffixList', 'AngleSuffixList', 'VolumeSuffixList', 'WeightSuffixList', 'DimensionSuffixList'],
          'temperature': ['TemperatureSuffixList', 'TemperaturePrefixList'], 'age': ['AgeSuffixList']}
if LANG != 'dutch':
    WIRING['dimension'].remove('AngleSuffixList')         # only the Dutch dimension model lists angles
TABLES = [getattr(R, n) for n in WIRING[KIND] if hasattr(R, n)]


def canonical_of():
    m = {}
    for t in TABLES:
        for unit, spellings in t.items():
            for s in spellings.strip().split('|'):
                if s and s not in m:
                    m[s] = unit
    return m


CANON = canonical_of()
SPELLINGS = sorted(CANON)
OFF, CNT = sl('off', 0), sl('cnt', 40)
PARSER = NumberWithUnitParser(CFG)


class _Inner:
    def parse(self, er):
        pr = ParseResult(er)
        pr.value, pr.resolution_str = 1, 'RES'
        return pr


CFG._internal_number_parser = _Inner()


def count(slice_, timeout):
    return {'state': 'discharged', 'detail': '%d spellings' % len(SPELLINGS), 'queries': 0}


def h_unit_lookup(si: int, layout: int, nlen: int, upper: bool):
    assume(OFF <= si < min(OFF + CNT, len(SPELLINGS)) and 0 <= layout <= 3 and 1 <= nlen <= 3)
    sp = SPELLINGS[int(si)]
    assume((sp != sp.strip()) == bool(sl('blank_kf', 0)))
    written = sp.upper() if upper else sp
    assume(not upper or written.lower() == sp)
    num = '7' * int(nlen)
    layout = int(layout)
    if layout == 0:
        text, nstart = num + ' ' + written, 0
    elif layout == 1:
        text, nstart = num + written, 0
    elif layout == 2:
        text, nstart = written + ' ' + num, len(written) + 1
    else:
        text, nstart = written + num, len(written)
    er = ExtractResult()
    er.start, er.length, er.text, er.type = 3, len(text), text, 'builtin.unit'
    n = ExtractResult()
    n.start, n.length, n.text, n.type = nstart, len(num), num, 'builtin.num'
    er.data = n
    pr = PARSER.parse(er)
    want = CANON[sp]
    if upper and written in CANON:
        want = CANON[written]
    assert pr.value is not None, (text,)
    assert pr.value.unit == want, (text, pr.value.unit, want)
    assert pr.value.number == 'RES'
    assert pr.start == 3 and pr.length == len(text)


def t_unit_lookup(si: int, layout: int, nlen: int, upper: bool):
    assume(OFF <= si < min(OFF + CNT, len(SPELLINGS)) and 0 <= layout <= 3 and 1 <= nlen <= 3)
    sp = SPELLINGS[int(si)]
    er = ExtractResult()
    er.start, er.length, er.text, er.type = 0, 2 + len(sp), '7 ' + sp, 'builtin.unit'
    n = ExtractResult()
    n.start, n.length, n.text = 0, 1, '7'
    er.data = n
    assert PARSER.parse(er).value is None


def h_iso(si: int):
    assume(OFF <= si < min(OFF + CNT, len(SPELLINGS)))
    sp = SPELLINGS[int(si)]
    assume(sp == sp.strip())
    cp = BaseCurrencyParser(CFG)
    text = '7 ' + sp
    er = ExtractResult()
    er.start, er.length, er.text, er.type = 0, len(text), text, UC.SYS_UNIT_CURRENCY
    n = ExtractResult()
    n.start, n.length, n.text = 0, 1, '7'
    er.data = n
    pr = cp.parse(er)
    unit = CANON[sp]
    iso = R.CurrencyNameToIsoCodeMap.get(unit)
    assert pr.value.unit == unit and pr.value.number == 'RES'
    if iso and not iso.startswith('_'):
        assert pr.value.iso_currency == iso
    else:
        assert not getattr(pr.value, 'iso_currency', None)
