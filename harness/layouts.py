"""Language layer for dates, times and numerals (C06 O6.1, C07 O7.1, C03 O3.1): every string of an oracle *layout language* (built
from the calendar / clock / numeral grammar, independently of the repository) must be fully matched by at least one of the patterns
the extractor compiles -- decided by z3 on an over-approximating translation of the real pattern sources (lib/rx2smt.translate_loose:
assertions dropped, exact on ASCII).  An inclusion that fails yields a concrete layout string that no pattern can match, which is
replayed on the real regex engine and through the public recogniser.  Solver-generated members of each layout are additionally pushed
through the public API and the resolved value is compared with the value the layout string denotes (composition check)."""
import calendar
import time
from datetime import datetime
from decimal import Decimal

import z3

from harness.common import *  # noqa
from lib import rx2smt


def lit(s):
    return z3.Re(z3.StringVal(s))


def alt(strings):
    rs = [lit(s) for s in strings]
    return rs[0] if len(rs) == 1 else z3.Union(*rs)


D = z3.Range('0', '9')
YEAR = z3.Union(z3.Concat(lit('19'), D, D), z3.Concat(lit('20'), D, D))
MM = alt(['%02d' % i for i in range(1, 13)])
DD = alt(['%02d' % i for i in range(1, 32)])
M1 = alt([str(i) for i in range(1, 13)])
D1 = alt([str(i) for i in range(1, 32)])
MONTHS_EN = [calendar.month_name[i].lower() for i in range(1, 13)]
ABBR_EN = [calendar.month_abbr[i].lower() for i in range(1, 13)]


MONTH_NAMES = {
    'es-es': ['enero', 'febrero', 'marzo', 'abril', 'mayo', 'junio', 'julio', 'agosto', 'septiembre', 'octubre', 'noviembre', 'diciembre'],
    'fr-fr': ['janvier', 'février', 'mars', 'avril', 'mai', 'juin', 'juillet', 'août', 'septembre', 'octobre', 'novembre', 'décembre'],
    'pt-br': ['janeiro', 'fevereiro', 'março', 'abril', 'maio', 'junho', 'julho', 'agosto', 'setembro', 'outubro', 'novembro', 'dezembro'],
    'de-de': ['januar', 'februar', 'märz', 'april', 'mai', 'juni', 'juli', 'august', 'september', 'oktober', 'november', 'dezember'],
    'it-it': ['gennaio', 'febbraio', 'marzo', 'aprile', 'maggio', 'giugno', 'luglio', 'agosto', 'settembre', 'ottobre', 'novembre', 'dicembre'],
}


def ordinal(n):
    return str(n) + ('th' if 11 <= n % 100 <= 13 else {1: 'st', 2: 'nd', 3: 'rd'}.get(n % 10, 'th'))


def date_layouts(culture):
    mdy = culture == 'en-us'
    a, b = (z3.Union(M1, MM), z3.Union(D1, DD)) if mdy else (z3.Union(D1, DD), z3.Union(M1, MM))
    out = {
        'iso': z3.Concat(YEAR, lit('-'), MM, lit('-'), DD),
        'slash': z3.Concat(a, lit('/'), b, lit('/'), YEAR),
        'dash': z3.Concat(a, lit('-'), b, lit('-'), YEAR),
    }
    names = MONTH_NAMES.get(culture)
    if names:
        # month-name layout of the culture: day, month name, year in its usual connective form
        fmt = {'es-es': ' de %s de ', 'pt-br': ' de %s de ', 'fr-fr': ' %s ', 'it-it': ' %s ', 'de-de': '. %s '}[culture]
        out['d-month-y'] = z3.Concat(D1, alt([fmt % m for m in names]), YEAR)
    if culture == 'en-us':
        mon = alt(MONTHS_EN + ABBR_EN)
        out['month-d-y'] = z3.Concat(mon, lit(' '), D1, lit(', '), YEAR)
        out['month-dth-y'] = z3.Concat(mon, lit(' '), alt([ordinal(i) for i in range(1, 32)]), lit(', '), YEAR)
        out['d-month-y'] = z3.Concat(D1, lit(' '), mon, lit(' '), YEAR)
        out['dth-of-month-y'] = z3.Concat(alt([ordinal(i) for i in range(1, 32)]), lit(' of '), alt(MONTHS_EN), lit(' '), YEAR)
    return out


def parse_date_layout(name, s, culture):
    mdy = culture == 'en-us'
    if name == 'iso':
        y, m, d = s.split('-')
        return int(y), int(m), int(d)
    if name in ('slash', 'dash'):
        a, b, y = s.replace('/', '-').split('-')
        return (int(y), int(a), int(b)) if mdy else (int(y), int(b), int(a))
    if culture in MONTH_NAMES and name == 'd-month-y':
        w = s.replace('.', ' ').replace(' de ', ' ').split()
        return int(w[2]), MONTH_NAMES[culture].index(w[1]) + 1, int(w[0])
    w = s.replace(',', ' ').replace(' of ', ' ').split()
    num = lambda t: int(''.join(c for c in t if c.isdigit()))  # noqa
    mon = lambda t: (MONTHS_EN.index(t) + 1) if t in MONTHS_EN else (ABBR_EN.index(t) + 1)  # noqa
    if name in ('month-d-y', 'month-dth-y'):
        return int(w[2]), mon(w[0]), num(w[1])
    return int(w[2]), mon(w[1]), num(w[0])


def time_layouts():
    H24 = alt(['%02d' % i for i in range(24)])
    H12 = alt([str(i) for i in range(1, 13)])
    MIN = alt(['%02d' % i for i in range(60)])
    ap = alt(['am', 'pm', 'a.m.', 'p.m.'])
    return {
        'hh:mm': z3.Concat(H24, lit(':'), MIN),
        'hh:mm:ss': z3.Concat(H24, lit(':'), MIN, lit(':'), MIN),
        'h:mm ap': z3.Concat(H12, lit(':'), MIN, lit(' '), ap),
        'h ap': z3.Concat(H12, lit(' '), ap),
        'hap': z3.Concat(H12, alt(['am', 'pm'])),
        'hmmap': z3.Concat(H12, MIN, z3.Union(lit(''), lit(' ')), alt(['am', 'pm', 'a.m.', 'p.m.'])),      # 730pm, 1230 am
    }


def parse_time_layout(name, s):
    body = s
    ap = None
    for t in ('a.m.', 'p.m.', 'am', 'pm'):
        if body.endswith(t):
            ap, body = t[0], body[:-len(t)].strip()
            break
    if ':' not in body and len(body) >= 3:
        body = body[:-2] + ':' + body[-2:]                # hour and two-digit minute written without a colon
    parts = [int(x) for x in body.split(':')]
    h = parts[0]
    m = parts[1] if len(parts) > 1 else 0
    sec = parts[2] if len(parts) > 2 else 0
    if ap == 'a':
        h = h % 12
    elif ap == 'p':
        h = h % 12 + 12
    return h, m, sec


NUM_MARKS = {'en-us': (',', '.'), 'es-es': ('.', ','), 'es-mx': (',', '.'), 'fr-fr': ('.', ','), 'pt-br': ('.', ','), 'de-de': ('.', ','), 'it-it': ('.', ','), 'nl-nl': ('.', ',')}


def number_layouts(culture):
    T, Dm = NUM_MARKS[culture]
    nz = z3.Range('1', '9')
    plain = z3.Union(D, z3.Concat(nz, z3.Loop(D, 1, 14)))
    grp = z3.Concat(nz, z3.Loop(D, 0, 2), z3.Loop(z3.Concat(lit(T), D, D, D), 1, 4))
    frac = z3.Loop(D, 1, 6)
    short = z3.Union(D, z3.Concat(nz, z3.Loop(D, 1, 2)))                 # 1..3 integer digits
    long_ = z3.Concat(nz, z3.Loop(D, 3, 14))                                # 4..15 integer digits, not grouped
    grp1 = z3.Concat(nz, z3.Loop(D, 0, 2), lit(T), D, D, D)
    grpn = z3.Concat(nz, z3.Loop(D, 0, 2), z3.Loop(z3.Concat(lit(T), D, D, D), 2, 4))
    return {'plain': plain, 'grouped-1': grp1, 'grouped-n': grpn, 'decimal-short': z3.Concat(short, lit(Dm), frac), 'decimal-long': z3.Concat(long_, lit(Dm), frac),
            'grouped-decimal': z3.Concat(grp, lit(Dm), frac), 'neg-plain': z3.Concat(lit('-'), plain), 'neg-decimal': z3.Concat(lit('-'), short, lit(Dm), frac)}


def parse_number_layout(s, culture):
    T, Dm = NUM_MARKS[culture]
    return Decimal(s.replace(T, '').replace(Dm, '.'))


# ---- sequence entities (C13): well-formed e-mail addresses, URLs with a listed TLD, hashtags, mentions, phone numbers -------------
def seq_layouts(kind):
    lo, al = z3.Range('a', 'z'), z3.Union(z3.Range('a', 'z'), z3.Range('0', '9'))
    AL = z3.Union(al, z3.Range('A', 'Z'))
    word = z3.Loop(al, 1, 8)
    if kind == 'email':
        local = z3.Concat(word, z3.Star(z3.Concat(alt(['.', '_', '+', '-']), word)))
        label = z3.Concat(word, z3.Star(z3.Concat(lit('-'), word)))
        domain = z3.Concat(label, z3.Star(z3.Concat(lit('.'), label)))
        return {'address': z3.Concat(local, lit('@'), domain, lit('.'), z3.Loop(lo, 2, 6))}
    if kind == 'hashtag':
        return {'tag': z3.Concat(lit('#'), z3.Loop(z3.Union(AL, lit('_')), 1, 12))}
    if kind == 'mention':
        return {'user': z3.Concat(lit('@'), z3.Loop(z3.Union(AL, lit('_')), 1, 12))}
    if kind == 'url':
        label = z3.Concat(al, z3.Loop(z3.Union(al, lit('-')), 0, 6), al)
        host = z3.Concat(z3.Star(z3.Concat(label, lit('.'))), label, lit('.'), alt(['com', 'org', 'net', 'io', 'co.uk']))
        path = z3.Star(z3.Concat(lit('/'), z3.Loop(z3.Union(al, alt(['-', '_', '.'])), 1, 8)))
        return {'scheme-host-path': z3.Concat(alt(['http://', 'https://', 'ftp://']), host, path),
                'www-host': z3.Concat(lit('www.'), host, path),
                'bare-host': z3.Concat(label, lit('.'), alt(['com', 'org', 'net']))}
    if kind == 'phone':
        d3, d4 = z3.Concat(D, D, D), z3.Concat(D, D, D, D)
        a3 = z3.Concat(z3.Range('2', '9'), D, D)
        return {'us-dashed': z3.Concat(a3, lit('-'), a3, lit('-'), d4), 'us-paren': z3.Concat(lit('('), a3, lit(') '), a3, lit('-'), d4),
                'us-plus1': z3.Concat(lit('+1 '), a3, lit(' '), a3, lit(' '), d4), 'seven': z3.Concat(a3, lit('-'), d4)}
    raise KeyError(kind)


SEQ_KINDS = ('email', 'hashtag', 'mention', 'url', 'phone')


def _seq_extractor(kind):
    import recognizers_sequence.sequence.english.extractors as X
    from recognizers_sequence.sequence.extractors import BaseURLExtractor, BasePhoneNumberExtractor
    env.assert_repo(X)
    if kind == 'email':
        return X.EnglishEmailExtractor()
    if kind == 'hashtag':
        return X.EnglishHashtagExtractor()
    if kind == 'mention':
        return X.EnglishMentionExtractor()
    if kind == 'url':
        return BaseURLExtractor(X.EnglishURLExtractorConfiguration(None))
    return BasePhoneNumberExtractor(X.EnglishPhoneNumberExtractorConfiguration(None))


# ---- the real patterns ------------------------------------------------------------------------------------------------------------------
LANGMOD = {'en': 'english', 'es': 'spanish', 'fr': 'french', 'pt': 'portuguese', 'de': 'german', 'it': 'italian', 'nl': 'dutch'}


def real_patterns(kind, culture, side='extractor'):
    import importlib
    if kind in SEQ_KINDS:
        return [rv.re.pattern if hasattr(rv.re, 'pattern') else rv.re for rv in _seq_extractor(kind).regexes]
    lang = LANGMOD[culture.split('-')[0]]
    if kind == 'date':
        m = importlib.import_module('recognizers_date_time.date_time.%s.date_extractor_config' % lang)
        cls = [getattr(m, n) for n in dir(m) if n.endswith('DateExtractorConfiguration') and n.lower().startswith(lang[:4])][0]
        env.assert_repo(m)
        try:
            cfg = cls(culture != 'en-us') if lang == 'english' else cls()
        except TypeError:
            cfg = cls()
        return [r.pattern for r in cfg.date_regex_list]
    if kind == 'time' and side == 'parser':
        # the patterns the time PARSER tries on an extracted time (a time the extractor finds but no parser pattern matches stays unresolved)
        from recognizers_date_time.date_time.english.common_configs import EnglishCommonDateTimeParserConfiguration
        cfg = EnglishCommonDateTimeParserConfiguration().time_parser.config
        env.assert_repo(type(cfg))
        return [r.pattern for r in cfg.time_regexes] + [cfg.at_regex.pattern]
    if kind == 'time':
        m = importlib.import_module('recognizers_date_time.date_time.%s.time_extractor_config' % lang)
        cls = [getattr(m, n) for n in dir(m) if n.endswith('TimeExtractorConfiguration') and n.lower().startswith(lang[:4])][0]
        env.assert_repo(m)
        return [r.pattern for r in cls().time_regex_list] + [cls().at_regex.pattern]
    m = importlib.import_module('recognizers_number.number.%s.extractors' % lang)
    env.assert_repo(m)
    cls = getattr(m, lang.capitalize() + 'NumberExtractor')
    return [rv.re if isinstance(rv.re, str) else rv.re.pattern for rv in cls().regexes]


def layouts_of(kind, culture):
    if kind in SEQ_KINDS:
        return seq_layouts(kind)
    return {'date': lambda: date_layouts(culture), 'time': time_layouts, 'number': lambda: number_layouts(culture)}[kind]()


def inclusion(slice_, timeout):
    kind, culture, name = slice_['kind'], slice_['culture'], slice_['layout']
    t = time.time()
    pats = real_patterns(kind, culture, slice_.get('side', 'extractor'))
    R, dropped = [], 0
    for p in pats:
        try:
            r, n = rx2smt.translate_loose(p)
        except rx2smt.NotEncodable as e:
            return {'state': 'inconclusive', 'detail': 'pattern not encodable (%s)' % e}
        R.append(r)
        dropped += n
    oracle = layouts_of(kind, culture)[name]
    w = rx2smt.not_included(oracle, R, int(timeout * 1000))
    st = round(time.time() - t, 2)
    if w is None:
        return {'state': 'discharged', 'detail': 'every %s/%s string is fully matched by one of the %d patterns (ignoring %d assertions)' % (kind, name, len(R), dropped),
                'queries': 1, 'solver_s': st, 'sample': {'patterns': len(R), 'assertions_dropped': dropped}}
    if w == 'unknown':
        return {'state': 'inconclusive', 'detail': 'z3 unknown', 'queries': 1, 'solver_s': st}
    return {'state': 'counterexample', 'cex': {'witness': w, 'kind': kind, 'culture': culture, 'layout': name},
            'detail': 'layout string %r cannot be matched by any of the %d patterns, even with all assertions ignored' % (w, len(R)), 'queries': 1, 'solver_s': st}


def _api(kind, culture, s):
    if kind in SEQ_KINDS:
        import recognizers_sequence as rs_
        f = {'email': rs_.recognize_email, 'hashtag': rs_.recognize_hashtag, 'mention': rs_.recognize_mention, 'url': rs_.recognize_url, 'phone': rs_.recognize_phone_number}[kind]
        return f(s, culture)
    if kind == 'number':
        from recognizers_number import recognize_number
        return recognize_number(s, culture)
    from recognizers_date_time import recognize_datetime
    return recognize_datetime(s, culture, reference=datetime(2016, 11, 7, 9, 30))


def _api_ok(kind, culture, name, s):
    """the public recogniser returns one entity covering the whole string whose value is what the layout string denotes"""
    rs = _api(kind, culture, s)
    if len(rs) != 1 or rs[0].start != 0 or rs[0].end != len(s) - 1:
        return False, [(r.text, r.start, r.end) for r in rs]
    res = rs[0].resolution
    if kind in SEQ_KINDS:
        # value equal to the entity text, which is the query text up to the documented lower-casing
        return (res or {}).get('value') == rs[0].text and rs[0].text.lower() == s.lower(), res
    if kind == 'number':
        T, Dm = NUM_MARKS[culture]
        got = Decimal(res['value'].replace(Dm, '.')) if res and res.get('value') is not None else None
        return got == parse_number_layout(s, culture), res
    vals = res['values'] if res else []
    if kind == 'date':
        y, m, d = parse_date_layout(name, s, culture)
        try:
            datetime(y, m, d)
            want = '%04d-%02d-%02d' % (y, m, d)
            return [v.get('value') for v in vals] == [want] and vals[0].get('timex') == want, vals
        except ValueError:
            return all(v.get('value') in ('not resolved', None) or True for v in vals), vals      # non-existent day: C11 decides that part
    h, mi, sec = parse_time_layout(name, s)
    want = '%02d:%02d:%02d' % (h, mi, sec)
    return any(v.get('value') == want for v in vals) and len(vals) in (1, 2), vals


def inclusion__replay(slice_, cex):
    import regex
    w, kind, culture = cex['witness'], cex['kind'], cex['culture']
    matched = any(regex.fullmatch(p, w, flags=regex.I | regex.S) for p in real_patterns(kind, culture, slice_.get('side', 'extractor')))
    ok, got = _api_ok(kind, culture, cex['layout'], w)
    return {'reproduced': (not matched) and (not ok), 'detail': '%r: fully matched by a real pattern: %s; recognised correctly through the API: %s (%r)' % (w, matched, ok, got)}


CARRIERS = {'phone': ['{}', 'call {} now', 'tel:{}', 'my number is {}.'], 'email': ['{}', 'mail {} now', 'to <{}>'], 'url': ['{}', 'see {} now', 'link: {}'],
            'hashtag': ['{}', 'see {} now'], 'mention': ['{}', 'cc {} now']}


def _api_ok_in_carrier(kind, culture, s, carrier):
    """the entity standing as its own token inside a carrier sentence: exactly one entity, at that position, value = text"""
    q = carrier.format(s)
    off = q.index(s)
    rs = _api(kind, culture, q)
    if len(rs) != 1 or rs[0].start != off or rs[0].end != off + len(s) - 1:
        return False, (q, [(r.text, r.start, r.end) for r in rs])
    res = rs[0].resolution or {}
    return res.get('value') == rs[0].text and rs[0].text.lower() == s.lower(), (q, res)


def api_members(slice_, timeout):
    """composition check on solver-generated members of the layout (not a universal verdict)"""
    kind, culture, name, n = slice_['kind'], slice_['culture'], slice_['layout'], slice_.get('n', 25)
    oracle = layouts_of(kind, culture)[name]
    ws = rx2smt.members(oracle, n)
    bad = []
    for w in ws:
        if kind in SEQ_KINDS:
            for c in CARRIERS[kind]:
                ok, got = _api_ok_in_carrier(kind, culture, w, c)
                if not ok:
                    bad.append((w, got))
                    break
            continue
        ok, got = _api_ok(kind, culture, name, w)
        if not ok:
            bad.append((w, got))
    if bad:
        return {'state': 'counterexample', 'cex': {'witness': bad[0][0], 'kind': kind, 'culture': culture, 'layout': name},
                'detail': 'API result for %r is %r' % bad[0], 'queries': len(ws)}
    return {'state': 'discharged', 'detail': '%d solver-generated members recognised with the right value' % len(ws), 'queries': len(ws), 'sample': {'members': ws[:4]}}


def api_members__replay(slice_, cex):
    if cex['kind'] in SEQ_KINDS:
        for c in CARRIERS[cex['kind']]:
            ok, got = _api_ok_in_carrier(cex['kind'], cex['culture'], cex['witness'], c)
            if not ok:
                return {'reproduced': True, 'detail': 'API result for %r in a carrier: %r' % (cex['witness'], got)}
        return {'reproduced': False, 'detail': 'recognised in every carrier'}
    ok, got = _api_ok(cex['kind'], cex['culture'], cex['layout'], cex['witness'])
    return {'reproduced': not ok, 'detail': 'API result for %r: %r' % (cex['witness'], got)}
