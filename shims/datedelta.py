"""Environment stub for the third-party `datedelta` package (absent from the sealed sandbox).

`datedelta(years=, months=, days=)` added to / subtracted from a date or datetime.  When the
target day does not exist (31 Jan + 1 month, 29 Feb + 1 year) the real library's policy cannot be
observed offline, so the policy is a parameter: VERIF_DATEDELTA_POLICY = 'rollover' (1st of the
following month; what datedelta 1.x documents) or 'clip' (last day of the month).  Checks that
can reach a non-existent target day run under both policies and only report verdicts that agree.
"""
import calendar
import datetime as _dt
import os

POLICY = os.environ.get('VERIF_DATEDELTA_POLICY', 'rollover')


class datedelta:  # noqa: N801
    __slots__ = ('years', 'months', 'days')

    def __init__(self, years=0, months=0, days=0):
        self.years, self.months, self.days = years, months, days

    def __neg__(self):
        return datedelta(-self.years, -self.months, -self.days)

    def __pos__(self):
        return self

    def __eq__(self, other):
        return isinstance(other, datedelta) and (self.years, self.months, self.days) == (
            other.years, other.months, other.days)

    def __hash__(self):
        return hash((self.years, self.months, self.days))

    def __repr__(self):
        return 'datedelta(years=%r, months=%r, days=%r)' % (self.years, self.months, self.days)

    def __mul__(self, k):
        return datedelta(self.years * k, self.months * k, self.days * k)

    __rmul__ = __mul__

    def __add__(self, other):
        if isinstance(other, datedelta):
            return datedelta(self.years + other.years, self.months + other.months, self.days + other.days)
        if isinstance(other, _dt.date) or hasattr(other, 'toordinal'):
            return self._apply(other)
        return NotImplemented

    __radd__ = __add__

    def __rsub__(self, other):
        if isinstance(other, _dt.date) or hasattr(other, 'toordinal'):
            return (-self)._apply(other)
        return NotImplemented

    def __sub__(self, other):
        if isinstance(other, datedelta):
            return self + (-other)
        return NotImplemented

    def _apply(self, d):
        if not self.years and not self.months:
            # pure day delta: no calendar-month arithmetic involved
            if isinstance(d, _dt.date):
                return d + _dt.timedelta(days=self.days)
            from lib import symdate
            return d + symdate.stimedelta(days=self.days)
        if isinstance(d, _dt.date):
            cal, td = calendar, _dt.timedelta
        else:                      # symbolic datetime of /verif/lib/symdate.py (same arithmetic, solver-decided branches)
            from lib import symdate
            cal, td = symdate.calendar, symdate.stimedelta
        total = d.year * 12 + (d.month - 1) + self.years * 12 + self.months
        y, m = total // 12, total % 12
        m += 1
        last = cal.monthrange(y, m)[1]
        day = d.day
        if day > last:
            if POLICY == 'clip':
                day = last
            else:
                m += 1
                if m == 13:
                    y, m = y + 1, 1
                day = 1
        r = d.replace(year=y, month=m, day=day)
        return r + td(days=self.days)


YEAR = datedelta(years=1)
MONTH = datedelta(months=1)
WEEK = datedelta(days=7)
DAY = datedelta(days=1)
