def slice(string, start=None, end=None):  # noqa: A001
    if start is not None or end is not None:
        raise NotImplementedError("grapheme shim: bounded slice is not modelled")
    return string
