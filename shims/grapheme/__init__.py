"""Environment stub for the third-party `grapheme` package (absent from the sealed sandbox).

recognizers_choice only calls `grapheme.api.slice(s)` without bounds, which is the identity on
`s` for every input the recogniser can pass.  Anything else is refused loudly."""
from . import api  # noqa: F401
