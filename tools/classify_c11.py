#!/usr/bin/env python3
"""Maps the screening counterexamples of harness/c11_inputs*.json to the recorded findings they are instances of (by the failed assertion
and the shape of the value) and prints the ones no rule covers; rewrites harness/c11_known.json.  Run by hand after a screening; the
checks only read the committed c11_known.json."""
import json
import os
import re

H = '/verif/harness'
known = {}
unmatched = []
for f in sorted(os.listdir(H)):
    m = re.match(r'c11_inputs(?:_(.+))?\.json$', f)
    if not m:
        continue
    cult = m.group(1) or 'en-us'
    d = json.load(open(os.path.join(H, f), encoding='utf-8'))
    for x in d.get('counterexample', []):
        q, det = x['q'], x['detail']
        fid = None
        if 'start not before end' in det:
            fid = 'F45'
            if cult == 'fr-fr' and q.startswith("L'APEC aura lieu en Corée du"):
                fid = 'F53'
            if '2000 年之前' in q:
                fid = 'F48'
        elif 'end differs from its definite TIMEX' in det and 'till current date' in q:
            fid = 'F51'
        elif 'end minus start differs' in det:
            mm = re.search(r"'timex': '\(([^,']*),([^,']*),", det)
            fid = 'F52' if (mm and mm.group(1) == mm.group(2)) or (cult in ('fr-fr', 'it-it') and 'T22' not in det) else None
            if 'T22' in det and 'T00' in det:
                fid = 'F55'
        elif 'duration value' in det and '-' in det:
            fid = 'F54'
        elif 'whose definite TIMEX is a bare date' in det:
            fid = 'F63'
        elif 'definite TIMEX with a month or day' in det and cult == 'de-de':
            fid = 'F56'
        if fid is None:
            unmatched.append((cult, q, det[:200]))
        else:
            known.setdefault(cult, {}).setdefault(fid, []).append(q)
old = json.load(open(os.path.join(H, 'c11_known.json'), encoding='utf-8'))
for cult, m in old.items():          # keep hand-recorded entries
    for fid, qs in m.items():
        for q in qs:
            if q not in known.setdefault(cult, {}).setdefault(fid, []):
                known[cult][fid].append(q)
json.dump(known, open(os.path.join(H, 'c11_known.json'), 'w', encoding='utf-8'), indent=1, ensure_ascii=False)
print({c: {k: len(v) for k, v in m.items()} for c, m in known.items()})
for u in unmatched:
    print('UNMATCHED', u)
