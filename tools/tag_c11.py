#!/usr/bin/env python3
"""Adds to every screened input of harness/c11_inputs*.json the *shape signature* of what the real model returns for it at one fixed
reference (2016-11-07 10:30): the list of (entity type, TIMEX with every digit written as #).  Only the shape of the observed output is
recorded -- the corpus' expected outputs are never read.  The quick tiers pick one input per distinct signature (stratified sample)
instead of every n-th input.  Run from /verif: .venv/bin/python tools/tag_c11.py"""
import json
import os
import re
import sys
from datetime import datetime

sys.path.insert(0, '/verif')
from lib import env  # noqa: E402
env.setup_paths()
from recognizers_date_time import recognize_datetime  # noqa: E402

H = '/verif/harness'
for f in sorted(os.listdir(H)):
    m = re.match(r'c11_inputs(?:_(.+))?\.json$', f)
    if not m:
        continue
    cult = m.group(1) or 'en-us'
    d = json.load(open(os.path.join(H, f), encoding='utf-8'))
    for x in d['discharged']:
        t, sig = set(), []
        try:
            rs = recognize_datetime(x['q'], cult, reference=datetime(2016, 11, 7, 10, 30))
        except Exception:
            rs = []
        for r in rs:
            vals = (r.resolution or {}).get('values', [])
            for v in vals:
                tx = v.get('timex', '')
                if re.match(r'^\([^,]+,[^,]+,P[^,]+\)$', tx):
                    t.add('range3')
                if re.match(r'^(\d{4}-\d\d-\d\d)?(T\d\d(:\d\d)*)?$', tx) and tx:
                    t.add('definite')
                sig.append('%s|%s|%s' % (r.type_name.split('.')[-1], re.sub(r'\d', '#', tx), v.get('Mod', '')))
            if len(vals) == 2 and vals[0].get('timex') == vals[1].get('timex') and re.match(r'^XXXX-(WXX-\d|\d\d-\d\d)$', vals[0].get('timex', '')):
                t.add('pair')
        x['tags'] = sorted(t)
        x['sig'] = ' ; '.join(sorted(set(sig)))
    json.dump(d, open(os.path.join(H, f), 'w', encoding='utf-8'), indent=0, ensure_ascii=False)
    print(cult, len(d['discharged']), 'inputs', len(set(x['sig'] for x in d['discharged'])), 'signatures')
