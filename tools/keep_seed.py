#!/usr/bin/env python3
"""tools/keep_seed.py <name> <srcdir> <property> <caught: yes|no|after-strengthening> <by obligations> <note>  -> /verif/seeded/<name>/"""
import json, os, shutil, sys
name, src, prop, caught, by, note = sys.argv[1:7]
d = os.path.join('/verif/seeded', name)
os.makedirs(d, exist_ok=True)
for f in ('patch.diff', 'demo.py'):
    shutil.copy(os.path.join(src, f), os.path.join(d, f))
meta = {}
try:
    meta = json.load(open(os.path.join(src, 'meta.json')))
except Exception as e:
    meta = {'note': 'sub-agent meta.json unreadable: %r' % e}
out = {'property': prop, 'summary': meta.get('summary'), 'needs': meta.get('needs'), 'author': 'independent sub-agent given only the property text and a scratch worktree',
       'agent_ran': meta.get('ran'),
       'confirmed_by_me': ['tools/confirm_seed.sh %s: demo exit 0 on the unchanged tree, exit 1 with the change; baseline pytest with the change: 204 passed (17 failed / 11 errors pre-existing)' % name,
                           'tools/try_seed.sh seeded/%s/patch.diff %s  (git -C /repo apply; ./check; git -C /repo checkout -- .)' % (name, prop)],
       'detected': caught, 'detected_by': by, 'note': note}
json.dump(out, open(os.path.join(d, 'meta.json'), 'w'), indent=1)
print('kept', d)
