#!/bin/sh
# usage: tools/confirm_seed.sh <name> <dir with patch.diff demo.py>   -- confirms a seeded change in a scratch worktree of /repo
NAME="$1"; SRC="$2"
WT=/tmp/confirm_$NAME
git -C /repo worktree add -q --detach $WT HEAD || exit 3
L=$WT/Python/libraries
export PYTHONPATH=/tmp/shims:$L/recognizers-text:$L/recognizers-number:$L/recognizers-number-with-unit:$L/recognizers-date-time:$L/recognizers-sequence:$L/recognizers-choice:$L/recognizers-suite:$L/datatypes-timex-expression
export PYTHONDONTWRITEBYTECODE=1
sed "s#/tmp/wt[0-9]*_[A-Za-z0-9_]*#$WT#g" $SRC/demo.py > /tmp/confirm_demo_$NAME.py
/venv/bin/python -W ignore /tmp/confirm_demo_$NAME.py > /tmp/confirm_$NAME.before 2>&1; B=$?
git -C $WT apply $SRC/patch.diff || { echo "patch does not apply"; }
/venv/bin/python -W ignore /tmp/confirm_demo_$NAME.py > /tmp/confirm_$NAME.after 2>&1; A=$?
T=$(cd $WT && env -u PYTHONPATH /venv/bin/python -m pytest -q -p no:cacheprovider --timeout=900 --continue-on-collection-errors 2>&1 | tail -1)
echo "$NAME: demo before exit=$B after exit=$A ; tests with change: $T"
git -C /repo worktree remove --force $WT
rm -f /tmp/confirm_demo_$NAME.py
