#!/usr/bin/env python3
"""Runs the C11 symbolic-reference obligation on given inputs: .venv/bin/python tools/try_c11.py <culture> <budget_s> <input>... (or - to read a JSON list on stdin)"""
import json
import sys
import time
from concurrent.futures import ThreadPoolExecutor

sys.path.insert(0, '/verif')
from lib.driver import Ob, run_worker  # noqa: E402

culture, budget = sys.argv[1], int(sys.argv[2])
check = 'shape'
if ':' in culture:
    culture, check = culture.split(':')
qs = sys.argv[3:]
if qs == ['-']:
    qs = json.load(sys.stdin)
ob = Ob('try', 'sx', 'harness.apidt:h_wellformed', timeout=budget)


def run(q):
    t = time.time()
    r = run_worker('run', ob, {'q': q, 'culture': culture, 'check': check}, budget, budget + 60, {})
    return q, r.get('state'), round(time.time() - t, 1), str(r.get('detail'))[:300], r.get('cex')


with ThreadPoolExecutor(12) as ex:
    for q, st, dt, det, cex in ex.map(run, qs):
        print(json.dumps({'q': q, 'state': st, 'wall': dt, 'detail': det, 'cex': cex}, ensure_ascii=False), flush=True)
