#!/usr/bin/env python3
"""Regenerates /verif/MANIFEST.json from the table below (kept in one place so it stays valid)."""
import json
import os

HERE = os.path.dirname(os.path.dirname(os.path.abspath(__file__)))

NOTE_COMMON = ('Trusted base: CPython, CrossHair 0.0.110 (its models of int/str/datetime), z3 4.x; the environment stubs '
               '/verif/shims (datedelta, grapheme); harness oracles. Regex matching is never executed symbolically: '
               'match objects are stubs obeying the documented contract, or languages are compared as z3 regular expressions. '
               'Inconclusive slices are listed in the evidence and never counted as discharged.')

CLAIMED = {
    'C15': dict(
        technique='bounded symbolic execution (symx + z3, symbolic calendar) of the real resolver and range-resolver code, sliced; inductive step for constraint collapse; solver counterexamples replayed natively',
        text='The real TimexResolver / TimexValue / TimexDateHelpers run on symbolic reference dates (1950..2090), weekdays, years 1..9998, months, ISO weeks and duration '
             'amounts. TimexRangeResolver.evaluate runs on TIMEX strings whose date/time fields are symbolic-digit placeholders: a weekday candidate against one date range '
             '(every start day 1951..2089; soundness and completeness), month-day candidates (all month-days incl. 29 Feb) against a year / year-month / explicit range, time '
             'candidates against 1..2 time-range constraints (H/M/S durations, parts of day), weekday + date range + time constraint. TimexConstraintsHelper.collapse runs on 1..4 '
             'ranges with symbolic endpoints under a termination monitor: every collapsed range lies inside a supplied one, for dates and for times.',
        note='An end-to-end run with 2..3 symbolic dates inside the constraint strings was too expensive (three civil-calendar conversions per query); it is replaced by the '
             'collapse step on abstract ranges plus single-range evaluate, stated in DESIGN. Duration candidates and time-range candidates are not claimed. '
             'Defects F8a/F8b and F20-F23 were found here and repaired. Number->string rendering is replaced by placeholder stubs and the real renderer is checked by its own obligation. ' + NOTE_COMMON,
        design='§5/C15'),
}

CLAIMED['C14'] = dict(
    technique='bounded symbolic execution of the real TIMEX parse/format pipeline on symbolic-digit strings (CrossHair + z3), one slice per grammar pattern',
    text='The real TimexParsing / TimexRegex (stdlib re) / assign_properties / TimexInference / TimexFormat code is run on TIMEX strings whose '
         'number fields are placeholders for symbolic ints; z3 decides every branch on the values. Each pattern of the datatype grammar '
         '(derived from the regex source at run time) is one slice whose fields range over their whole calendar range. Asserts: fields '
         'parsed as written, format->parse gives the same 20 fields, format idempotent, canonical strings unchanged, from_date/from_date_time/from_time canonical.',
    note='Sound because the TIMEX patterns only test digit-ness (checked on the regex source each run). decimal.Decimal is replaced by a '
         'text-preserving stub; explicit (start,end,duration) ranges are outside. Date-range pattern + T part is the region of known finding F19 (characterised by its own obligation); F7a and F7b (zero amounts) were found here and repaired. ' + NOTE_COMMON,
    design='§5/C14')

CLAIMED['C07'] = dict(
    technique='bounded symbolic execution of the real time parser and formatters (CrossHair + z3) with regex match objects stubbed by symbolic-digit groups',
    text='CrossHair runs BaseTimeParser.match_to_time (English configuration, real am/pm regexes) and the DateTimeFormatUtil time formatters / '
         'to_pm / all_str_to_pm on symbolic h, m, s and reference dates; every (description, hour width, fields present) combination is a slice '
         'and only fully confirmed slices count. Asserts the 24-hour conversion (12 am -> 00, 12 pm -> 12), TIMEX shape, the ampm comment exactly '
         'for ambiguous hours, the value on the reference date, and that the second reading is the hour of the other half of the day (always 0..23). '
         'Chinese clock times: symx runs the real ChineseTimeParser (handle_digit / handle_chinese / pack_time_result / add_description) on symbolic h, m, s with the captures of a real extractor match: '
         'under a day-part word the hour is the one inside the word\'s window congruent to the stated hour modulo 12 (下午12点 = 12, 晚上12点 = 24 = 00).',
    note='Language layer (O7.1): every HH:MM[:SS] and 12-hour am/pm time is proved to be fully matched by one of the real English time patterns (z3 regex solver, '
         'assertions dropped) and solver-generated members go through recognize_datetime. In O7.2-O7.4 the match object is a stub exposing named groups. ' + NOTE_COMMON,
    design='§5/C07')

SX = ('symx (lib/symx.py): the real Python code is executed natively on z3-backed int/bool/date proxies; every branch on a symbolic value is '
      'decided by z3 and all feasible paths are explored by deterministic re-execution. ')
CLAIMED['C06'] = dict(
    technique='bounded symbolic execution (symx + z3) of the real date parser and resolution builder with the regex match stubbed by symbolic-digit groups',
    text=SX + 'BaseDateParser.parse -> match_to_date -> generate_dates -> formatters -> BaseMergedParser resolution builder run on a symbolic 4-digit '
         'year 1900..2099, symbolic day 1..31, every month, and a symbolic reference datetime; asserts one date value equal to the TIMEX YYYY-MM-DD, '
         'independent of the reference, and "not resolved" for non-existent days.',
    note='Language layer (O6.1): every string of the supported layouts is proved (z3 regex solver, over-approximating translation with assertions dropped) to be fully '
         'matched by one of the real date patterns for en/es/fr/pt/de/it, and solver-generated members go through recognize_datetime. Which pattern wins and how its groups '
         'decompose a string is not proved: in O6.2 one date pattern is made to match with year/month/day groups. Month/day word tables are replaced by one-entry tables and audited concretely against the calendar (O6.5, an audit, not a solver verdict). ' + NOTE_COMMON,
    design='§5/C06')
CLAIMED['C08'] = dict(
    technique='API-level symbolic execution (symx + z3): concrete query text through the real extractors/parsers, symbolic reference datetime and symbolic N',
    text=SX + 'The public model code path (extract + parse, mirrored without its blanket except) runs on each relative expression (today, tomorrow, N days ago, '
         'in N weeks, next/this/last <weekday>, this/next/last week|month|year, now) with a symbolic reference; a discharged slice holds for every '
         'reference datetime 1950-01-01..2090-12-31 at every minute. N is symbolic (1..5000) at unit level. The same obligations run on the relative day / week / month / year phrases of es, fr, pt, de, it, nl, zh that the port supports '
         '(harness/c08_phrases.json) through each culture\'s model, and on the Chinese special days at parser level.',
    note='Calendar classes are modelled (lib/symdate.py, validated against datetime every run); datedelta is an environment stub and month/year shifts from '
         'the 29th..31st are reported ENV-DEPENDENT where its two plausible policies disagree. Translations the port does not support (documented NotSupported in the Specs) are not claimed; F61 is recorded. ' + NOTE_COMMON,
    design='§5/C08')
CLAIMED['C09'] = dict(
    technique='bounded symbolic execution (symx + z3) of the real date parser for year-less dates and bare weekdays, symbolic reference datetime',
    text=SX + 'match_to_date/generate_dates (month+day without year, incl. 29 Feb) and parse_implicit_date (bare weekday) plus the resolution builder run '
         'for every day of every month / every weekday and every reference 1950..2090 with symbolic time of day; asserts two candidates in past/future order, '
         'nearest occurrences around the reference date, open TIMEX. At API level the Specs inputs of every culture that yield a candidate pair under an open TIMEX run through the whole model with a symbolic reference datetime: '
         'the pair must bracket the reference day (same month/day in consecutive years, leap-year neighbours for 29 February, same weekday 7 days apart).',
    note='Regex match stubbed. Known finding KF-C09-TOD (reference with a time of day on the very day named) is excluded as a region and searched separately. Defect F50 (written-out day: past candidate in the next year) was found by the corpus obligation and repaired. ' + NOTE_COMMON,
    design='§5/C09')

CLAIMED['C17'] = dict(
    technique='solver-driven small-scope exploration (symx + z3) of the real routing/caching code; one inductive cache step from an arbitrary valid cache state',
    text=SX + 'Culture codes are assembled from symbolic indices (15 languages x regions x letter case, None, empty); z3 enumerates the index space and the '
         'real map_to_nearest_language / Recognizer.get_model / ModelFactory code runs on each with the real registration tables of all five recognisers '
         '(constructors replaced by tagged sentinels). The cache obligation starts from an arbitrary cache satisfying the invariant and makes one request, '
         'which covers request histories of any length and order. Option-range validation is checked for options -3..40.',
    note='Strings cannot be symbolic in this engine, so the culture-code space is the stated finite grammar, explored exhaustively through the solver '
         '(this obligation is closer to exhaustive small-scope enumeration than to symbolic reasoning; stated as such). ' + NOTE_COMMON,
    design='§5/C17')

CLAIMED['C01'] = dict(
    technique='CrossHair on a symbolic string for preprocessing; symx + z3 on symbolic match/result intervals for every span-producing unit',
    text='Length-preserving preprocessing is confirmed by CrossHair for every code point (symbolic one-character string; two characters in the thorough '
         'tier). ' + SX + 'The number and sequence sweeps, the percentage position map, merge_all_tokens and the six Model.parse assemblers run on '
         'arbitrary contract-respecting match intervals in bounded sources; each result must be in range, non-empty and carry the trimmed slice as text, '
         'and each model result must have end = start + length - 1. The unit extractor (prefix/suffix offsets), the merged parser modifier strip/restore and add_mod run on symbolic '
         'spans as well. At API level about 23 000 queries assembled from pools (pads, dialing/currency prefixes, bodies, tails) go through 12 recognisers with all real regexes '
         'and the CJK extractors of 5 zh-cn recognisers (small-scope enumeration through the solver): range, text = normalised slice, disjointness.',
    note='In the unit obligations the regex engine is a stub returning symbolic intervals under the finditer contract; which intervals real patterns produce is decided only '
         'on the composed pool. CJK extractors are not covered. Known findings F2 (empty date-time entity) and F37 (ChineseMergedExtractor.add_mod, region identified by a call-site monitor) are reported through API witnesses; F1, F17, F38, F39 were found here and repaired. ' + NOTE_COMMON,
    design='§5/C01')
CLAIMED['C12'] = dict(
    technique='one inductive step per overlap-resolution mechanism on symbolic intervals (symx + z3), known defect regions excluded and searched separately',
    text=SX + 'add_to, merge_all_tokens, the number/sequence union sweeps, the unit extractor candidate selection (_select_candidates) and the unit model b_add filter run '
         'on arbitrary contract-respecting symbolic intervals; the output must be pairwise disjoint (and nothing may vanish without a covering competitor). Region F3a is excluded '
         'by precondition and searched by its own obligation plus an API witness, which print KNOWN-FINDING while the defect exists. At API level, date-time / currency / dimension / '
         'percentage queries assembled from pools go through the real recognisers: entities pairwise disjoint, an overlap being excused only when a recording monitor around the real '
         'add_to attributes that very pair to F3a.',
    note='The composed pool is a finite grammar explored exhaustively through the solver (stated as such); the merged number/unit grouping is not built. F9 and F18 (F3b) were found here and repaired. ' + NOTE_COMMON,
    design='§5/C12')

CLAIMED['C16'] = dict(
    technique='solver-driven small-scope exploration (symx + z3): strings assembled from symbolic indices into a class alphabet, real tokenizers/trie/matcher run on each',
    text=SX + 'Every string of length <= 4 (thorough 5) over an alphabet of character classes (letter, digit, $, punctuation, space, CJK, ...) goes through '
         'both tokenizers; every pair of 1..2-token phrases and every query of <= 4 tokens through TrieTree; every query of length 5 (thorough 7) through '
         'StringMatcher with four phrases. Oracles: an independently written reference tokenizer and a brute-force occurrence search.',
    note='Strings cannot be symbolic in this engine: the solver enumerates the index space (exhaustive small scope, stated as such); the property sizes '
         '(30 phrases, length 40) are far beyond it. ' + NOTE_COMMON,
    design='§5/C16')

CLAIMED['C10'] = dict(
    technique='bounded symbolic execution (symx + z3) of the real duration parser (symbolic N), the two-endpoint date range parser (symbolic endpoints) and luis_time_span',
    text=SX + "'N <unit>' runs through BaseDurationParser.parse and the resolution builder for every unit word with N symbolic in 1..5000 (TIMEX P[T]N<U>, value N x unit seconds). "
         'A range between two absolute dates runs through BaseDatePeriodParser.parse with the start day number (1900..2088) and the gap (1..4000 days) symbolic: '
         'resolved start/end must be exactly the endpoints and the TIMEX (start,end,PnD) must satisfy end - start = n. "from <time> to <time>" runs through '
         'BaseTimePeriodParser.merge_two_time_points with both clock times symbolic (marked or unmarked am/pm): start < end <= start + 24 h and the PT..H..M of the TIMEX equals end - start. '
         'luis_time_span is checked on symbolic instants. At API level the Specs inputs of every culture that yield a (start,end,duration) TIMEX run through the whole model with a symbolic reference datetime: with both endpoints definite, end - start must equal the duration.',
    note='Inner number/date/time extractors and parsers are stubs feeding symbolic values; fractional amounts are outside; the corpus clause is covered on the screened pool of inputs (harness/c11_inputs*.json). '
         'Defect F10 (Feb-29 year synchronisation applied to explicit-year ranges) was found by O10.4 and repaired. ' + NOTE_COMMON,
    design='§5/C10')
CLAIMED['C11'] = dict(
    technique='bounded symbolic execution (symx + z3) of the real resolution builder and validity guards; date/time end-to-end clauses shared with C06/C07',
    text=SX + 'set_parse_result/_date_time_resolution and helpers run on resolution dictionaries rendered by the real formatters from symbolic datetimes, one slice per '
         '(type, modifier, validity pattern): values have the promised shape, the type name equals the value type, min-value sides never appear, nothing valid gives exactly '
         'one "not resolved", past precedes future. safe_create_from_min_value / is_valid_date / is_valid_time are checked on symbolic fields incl. out-of-range ones.'
         ' At API level every DateTimeModel Specs input of a screened pool (en, zh, es, fr, pt, de, it, nl; about 140 quick, 2000+ thorough; expected outputs not consulted) runs through the whole real model with a symbolic reference datetime '
         '(every minute 1950..2090): every emitted value must have the shape its type promises, date ranges start before end, and a value whose TIMEX is fully definite equals it.',
    note='The per-type parsers are represented by the dictionaries they hand over. Non-existent input dates -> "not resolved" and definite TIMEX = value are decided end to end '
         'for dates by C06 O6.2 and for times by C07. Set/timezone types are outside; the inputs of known findings F45, F48 are explored by their own known-region obligations; F46 (to_pm) and F47 (Chinese year-less period) were found here and repaired. ' + NOTE_COMMON,
    design='§5/C11')

CLAIMED['C13'] = dict(
    technique='z3 regular-expression equivalence between the real IPv4/IPv6/GUID patterns (translated from source each run) and grammar oracles; CrossHair for the canonicaliser',
    text='The patterns the sequence recogniser compiles are translated to z3 regex terms and proved equal, for strings of unbounded length, to oracle languages '
         'built from the address grammars (all 256^4 IPv4 addresses with up to three digits per octet, every RFC 4291 text form, every GUID layout of the pattern). '
         'A counterexample is a concrete string, replayed against the real regex engine and an independent validity predicate. drop_leading_zeros is confirmed by '
         'CrossHair over all pairs of 1..3-digit groups and over every group string in first / inner / last position for both separators. Solver-generated members and near-misses go through recognize_ip_address / recognize_guid as a composition check.',
    note='Edge word-boundary assertions are stripped (reported in the evidence); exact-span recognition inside text is only validated on solver witnesses, not proved. '
         'For e-mail/URL/hashtag/mention/phone only the inclusion of well-formed layouts in the over-approximated real patterns is decided (necessary condition), plus an API composition check on solver-generated members. ' + NOTE_COMMON,
    design='§5/C13')

CLAIMED['C20'] = dict(
    technique='z3 regular-expression disjointness of the two polarity patterns; solver-driven exhaustive exploration (symx) of alternatives x case x context through the real model',
    text='The true/false patterns as actually used (after remove_unicode_matches) are translated to z3 regexes; the solver proves that no string has both polarities. '
         'The alternatives are enumerated from the real pattern source, confirmed members by z3, and each goes through the real BooleanModel in 4 letter cases and 8 contexts; '
         'neutral token sequences must yield nothing; true/false pairs must yield one entity with its own polarity; the reported score must lie in [0,1].',
    note='Exhaustive over the stated finite context/case grammar rather than symbolic strings. Known finding F11 (thumbs-up as a single code point is not recognised) is '
         'reported through its API witness. ' + NOTE_COMMON,
    design='§5/C20')

CLAIMED['C03'] = dict(
    technique='symbolic execution (symx + z3) of the real digit kernel on numerals with symbolic digits and an exact Decimal proxy; CrossHair for the output formatter',
    text=SX + 'BaseNumberParser._get_digital_value runs with each culture\'s real separator configuration on every numeral shape (plain, grouped, decimal, grouped+decimal, '
         'signed; <= 15 digits; for the cultures that accept both conventions also with the marks exchanged; with suffix multipliers 10^3..10^12 as the kernel parameter) with all digits symbolic: the value must equal the number written, for every digit assignment at once. CultureInfo.format is confirmed by '
         'CrossHair over all decimal strings [-]d{1,4}[.d{0,3}] per culture; the percentage parser appends "%" exactly once and keeps the span.',
    note='Decimal and its context are replaced by an exact proxy (valid up to 15 digits; validated against real Decimal on random numerals every run). The regex layer, CJK '
         'cultures, recognition of the multiplier suffix, fractions/powers, sign words and numerals beyond 15 digits are outside. Language layer (O3.1): every numeral of the culture grammar is proved to be '
         'fully matched by one of the patterns the culture extractor compiles (8 cultures; known findings F14-F16 are the slices where that fails). ' + NOTE_COMMON,
    design='§5/C03')

CLAIMED['C04'] = dict(
    technique='symbolic execution (symx + z3) of the real cardinal/ordinal token arithmetic (BaseNumberParser.__get_int_value, CJKNumberParser.get_int_value) on token shapes with symbolic number-word values, in 9 cultures',
    text=SX + 'BaseNumberParser.__get_int_value runs with the real English maps on token lists in which every number word is a placeholder with a symbolic value (ones, teens, '
         'tens), so each token shape (groups units..trillion, with/without "and", cardinal or ordinal last word) is decided for all its numbers at once. The shapes are '
         'validated against the real tokenising regex on a concrete standard spelling each.',
    note='English by an enumerated shape grammar (quick one- and two-group shapes, thorough three); fr, de, nl, it, pt, es, zh, ja by the shapes that independent spellers produce for ~550 (thorough ~4100) '
         'boundary and sample numbers per culture, with an independent positional evaluator as oracle and an API composition check on the same numbers. Ordinals of the other cultures, the extraction '
         'regexes beyond the sample and Japanese numerals from 10^4 are outside. Defects F30, F31, F33 were found here and repaired; F26-F29, F34, F35 are recorded regions. ' + NOTE_COMMON,
    design='§5/C04')

CLAIMED['C05'] = dict(
    technique='solver-driven exploration (symx + z3) of the real unit parser over the real unit tables; z3 real/floating-point queries on the compound-currency arithmetic traced from the real merge code',
    text=SX + 'Every listed English spelling of a batch (currency, dimension, temperature, age) goes through NumberWithUnitParser.parse / BaseCurrencyParser.parse in four '
         'layouts, three number lengths and both letter cases; the unit must be the canonical name given by an independent reading of the tables, the number the inner '
         'parser\'s resolution, the ISO code the table\'s. bind_dictionary is explored over all small dictionaries. The real compound-currency merge code runs on traced numbers for all 157 main/fraction pairs of the '
         'real tables (z3 linear real arithmetic: one entity, main unit and ISO, worth N + M/ratio); its double-precision term (US dollar/cent) is compared by z3 (QF_FP) '
         'with one correctly rounded division; the solver finds amounts that print wrongly (known finding F4) and, in the thorough tier, proves a one-ulp bound for N < 1024.',
    note='Per-row table quantifier: quick covers every fourth batch of 40 spellings, thorough all rows (an exhaustive finite enumeration driven through the solver, stated as such). '
         'Inner numerals are C03; the extractor/matcher side is C16; other cultures and compound control flow are outside. Known findings F4, F12. ' + NOTE_COMMON,
    design='§5/C05')

CLAIMED['C02'] = dict(
    technique='inductive cache step on symbolic keys (symx + z3); two-call history of the number parser on symbolic digits (symx + z3); exhaustive composition check of ordered request pairs x cache state x thread against a fresh-interpreter baseline',
    text=SX + 'Purity is reduced to the state that outlives a call. The model cache is covered by one inductive step from an arbitrary valid cache state (any history, any order). '
         'Every ordered pair of 28 public-API requests (5 recognisers, 6 cultures, numerals in both separator conventions), with cold or warm cache and the second request on the main or on a fresh thread, must give the '
         'second request the result it has alone in a fresh interpreter; at unit level the digit kernel runs twice on one parser object, the second numeral with symbolic digits; '
         '2..4 threads issuing one request at once on a cold cache must all get that result.',
    note='Thread interleavings inside a call are exercised (one schedule each), not explored: no installed engine controls the GIL schedule, so the "all interleavings" part of the '
         'quantifier is outside the claim. The request pool stands for "any request". Defect F6 (thread-local decimal precision) was found this way and repaired. ' + NOTE_COMMON,
    design='§5/C02')

NOT_APPLICABLE = {
    'C18': 'ground equality of ~50 concrete generated files against concrete YAML: no quantified variable for a solver to range over; '
           'deciding it is executing the generator (whose dependency ruamel.yaml is absent from every usable interpreter)',
    'C19': 'closed corpus of ~15000 concrete expected outputs: the deciding step would be enumeration of concrete runs, which this '
           'technique family excludes; nothing to make symbolic',
}

PENDING = 'check not built yet in this round (work in progress); see DESIGN.md for the planned obligations'

ALL = ['C%02d' % i for i in range(1, 21)]


def main():
    checks = []
    for pid in ALL:
        if pid not in CLAIMED:
            continue
        c = CLAIMED[pid]
        checks.append({
            'property_id': pid,
            'quick_cmd': './check %s --tier quick' % pid,
            'thorough_cmd': './check %s --tier thorough' % pid,
            'evidence_file': '/verif/evidence/%s.json' % pid,
            'replay_cmd_template': './check %s --replay {path}' % pid,
            'engine': 'solver',
            'level_claimed': {'category': 'model_checking', 'text': c['text'], 'design_ref': c['design']},
            'level_note': c['note'],
            'technique': c['technique'],
        })
    na = []
    for pid in ALL:
        if pid in CLAIMED:
            continue
        na.append({'property_id': pid, 'reason': NOT_APPLICABLE.get(pid, PENDING)})
    man = {
        'version': 1,
        'setup_cmd': './bootstrap.sh',
        'hooks': {
            'guard': 'RECOGNIZERS_TEXT_VERIF',
            'enable': 'no source hooks are needed: harnesses patch module globals of the imported /repo modules from outside; '
                      'checks export RECOGNIZERS_TEXT_VERIF=1 for uniformity',
            'baseline_off_cmd': 'cd /repo && /venv/bin/python -m pytest -ra -q -p no:cacheprovider --timeout=900 --continue-on-collection-errors',
            'source_commits': [],
            'add_only': True,
        },
        'engines': [
            {'name': 'solver', 'path': '/verif/lib', 'serves_properties': sorted(CLAIMED),
             'kind_free_text': 'driver + workers: CrossHair (symbolic execution of the real Python functions, z3 per path), direct z3 '
                               'encodings (regex languages, LIA/FP kernels) regenerated from /repo on every run, native replay of counterexamples'},
        ],
        'checks': checks,
        'not_applicable': na,
        'notes': 'Exit 0 = nothing violated in what was explored; 1 = reproduced counterexample (VIOLATION line); 2 = harness error. '
                 'Known findings: /verif/known_findings.json.',
    }
    with open(os.path.join(HERE, 'MANIFEST.json'), 'w') as f:
        json.dump(man, f, indent=1)
        f.write('\n')


if __name__ == '__main__':
    main()
