#!/usr/bin/env python3
"""Screens the English DateTimeModel Specs inputs for the C11 well-formedness obligation (symbolic reference datetime): records, per
input, whether the symbolic exploration finishes within the budget.  Writes harness/c11_inputs.json (inputs that were discharged, with
their screening wall time).  Run from /verif with the overlay interpreter: .venv/bin/python tools/screen_c11.py [budget_s] [workers]"""
import json
import sys
import time
from concurrent.futures import ThreadPoolExecutor

sys.path.insert(0, '/verif')
from lib.driver import Ob, run_worker  # noqa: E402

budget = int(sys.argv[1]) if len(sys.argv) > 1 else 60
workers = int(sys.argv[2]) if len(sys.argv) > 2 else 14
qs = []
for f in ('DateTimeModel.json',):
    for c in json.load(open('/repo/Specs/DateTime/English/' + f, encoding='utf-8-sig')):
        q = c.get('Input')
        if isinstance(q, str) and q not in qs:
            qs.append(q)
ob = Ob('screen', 'sx', 'harness.apidt:h_wellformed', timeout=budget)


def run(q):
    t = time.time()
    r = run_worker('run', ob, {'q': q}, budget, budget + 60, {})
    return q, r.get('state'), round(time.time() - t, 1), str(r.get('detail'))[:200]


out, other = [], []
with ThreadPoolExecutor(workers) as ex:
    for q, st, dt, det in ex.map(run, qs):
        (out if st == 'discharged' else other).append({'q': q, 'wall': dt, 'state': st, 'detail': det})
        if st not in ('discharged', 'inconclusive'):
            print(st, repr(q), det, flush=True)
out.sort(key=lambda x: (x['wall'], x['q']))
json.dump({'budget_s': budget, 'discharged': out, 'not_discharged': other}, open('/verif/harness/c11_inputs.json', 'w'), indent=0, ensure_ascii=False)
print('discharged', len(out), 'other', len(other))
