#!/usr/bin/env python3
"""Screens the English DateTimeModel Specs inputs for the C11 well-formedness obligation (symbolic reference datetime): records, per
input, whether the symbolic exploration finishes within the budget.  Writes harness/c11_inputs.json (inputs that were discharged, with
their screening wall time).  Run from /verif with the overlay interpreter: .venv/bin/python tools/screen_c11.py [budget_s] [workers]"""
import json
import sys
import time
from concurrent.futures import ThreadPoolExecutor

sys.path.insert(0, '/verif')
from lib.driver import Ob, run_worker  # noqa: E402

budget = int(sys.argv[1]) if len(sys.argv) > 1 else 60
workers = int(sys.argv[2]) if len(sys.argv) > 2 else 14
culture = sys.argv[3] if len(sys.argv) > 3 else 'en-us'
check = sys.argv[4] if len(sys.argv) > 4 else 'shape'
LANG = {'en-us': 'English', 'es-es': 'Spanish', 'fr-fr': 'French', 'pt-br': 'Portuguese', 'zh-cn': 'Chinese', 'de-de': 'German', 'it-it': 'Italian', 'nl-nl': 'Dutch'}[culture]
qs = []
for f in ('DateTimeModel.json',):
    for c in json.load(open('/repo/Specs/DateTime/%s/' % LANG + f, encoding='utf-8-sig')):
        q = c.get('Input')
        if isinstance(q, str) and q not in qs:
            qs.append(q)
ob = Ob('screen', 'sx', 'harness.apidt:h_wellformed', timeout=budget)


def tags_of(qs):
    """one concrete run of the real model per input (reference 2016-11-07; outputs are only classified, never compared with the
    corpus' expectations): which inputs yield a (start,end,duration) TIMEX ('range3'), a pair of candidates under an open TIMEX ('pair'),
    a definite TIMEX ('definite')"""
    import re
    from datetime import datetime
    from lib import env
    env.setup_paths()
    from recognizers_date_time import recognize_datetime
    out = {}
    for q in qs:
        t = set()
        try:
            rs = recognize_datetime(q, culture, reference=datetime(2016, 11, 7, 10, 30))
        except Exception:
            rs = []
        for r in rs:
            vals = (r.resolution or {}).get('values', [])
            for v in vals:
                tx = v.get('timex', '')
                if re.match(r'^\([^,]+,[^,]+,P[^,]+\)$', tx):
                    t.add('range3')
                if re.match(r'^(\d{4}-\d\d-\d\d)?(T\d\d(:\d\d)*)?$', tx) and tx:
                    t.add('definite')
            if len(vals) == 2 and vals[0].get('timex') == vals[1].get('timex') and re.match(r'^XXXX-(WXX-\d|\d\d-\d\d)$', vals[0].get('timex', '')):
                t.add('pair')
        out[q] = sorted(t)
    return out


def run(q):
    t = time.time()
    r = run_worker('run', ob, {'q': q, 'culture': culture, 'check': check}, budget, budget + 60, {})
    return q, r.get('state'), round(time.time() - t, 1), str(r.get('detail'))[:200]


out, other = [], []
with ThreadPoolExecutor(workers) as ex:
    for q, st, dt, det in ex.map(run, qs):
        (out if st == 'discharged' else other).append({'q': q, 'wall': dt, 'state': st, 'detail': det})
        if st not in ('discharged', 'inconclusive'):
            print(st, repr(q), det, flush=True)
out.sort(key=lambda x: (x['wall'], x['q']))
name = '/verif/harness/c11_inputs.json' if culture == 'en-us' else '/verif/harness/c11_inputs_%s.json' % culture
if check not in ('shape', 'all'):
    name = '/tmp/c11_screen_%s_%s.json' % (culture, check)
tags = tags_of(qs)
json.dump({'_comment': '%s DateTimeModel Specs inputs screened by tools/screen_c11.py (budget %d s); expected outputs of the corpus are not used' % (LANG, budget),
           'budget_s': budget, 'check': check, 'discharged': [{'q': x['q'], 'wall': x['wall'], 'tags': tags.get(x['q'], [])} for x in out],
           'counterexample': [x for x in other if x['state'] == 'counterexample'], 'slow': [x['q'] for x in other if x['state'] == 'inconclusive'],
           'other': [x for x in other if x['state'] not in ('counterexample', 'inconclusive')]}, open(name, 'w'), indent=0, ensure_ascii=False)
print('discharged', len(out), 'other', len(other))
