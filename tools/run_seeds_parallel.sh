#!/bin/bash
# Faster variant of run_seeds.sh for development: every kept seeded change is applied to its own scratch worktree of /repo
# (git worktree under /tmp, removed afterwards) and the property's quick check runs against that tree through VERIF_REPO.
# /repo itself is not touched.  usage: tools/run_seeds_parallel.sh [jobs] [name-filter]
J=${1:-3}; F=${2:-}
cd /verif
one() {
  d="$1"; n=$(basename "$d"); p=$(python3 -c "import json;print(json.load(open('$d/meta.json'))['property'])")
  wt=/tmp/seedrun_$n
  git -C /repo worktree add -q --detach "$wt" HEAD 2>/dev/null || { echo "$n ($p): cannot create worktree"; return; }
  if git -C "$wt" apply "$d/patch.diff" 2>/dev/null; then
    VERIF_REPO="$wt" ./check "$p" --no-evidence > "/tmp/seedrun_$n.out" 2>&1; rc=$?
    obs=$(grep "^  obligation=" "/tmp/seedrun_$n.out" | sed 's/^  obligation=\([^ ]*\).*/\1/' | sort -u | tr '\n' ' ')
    echo "$n ($p): exit=$rc violations=$(grep -c '^VIOLATION' /tmp/seedrun_$n.out) by: $obs"
  else
    echo "$n ($p): patch does not apply"
  fi
  git -C /repo worktree remove --force "$wt"; rm -f "/tmp/seedrun_$n.out"
}
for d in /verif/seeded/*$F*/; do
  one "$d" &
  while [ "$(jobs -r | wc -l)" -ge "$J" ]; do sleep 2; done
done
wait
