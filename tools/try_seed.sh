#!/bin/sh
# usage: tools/try_seed.sh <patch> <property> [extra check args]  -- applies a seeded change to /repo, runs the check, reverts
P="$1"; PROP="$2"; shift 2
cd /repo && git apply "$P" || { echo "patch does not apply"; exit 3; }
cd /verif && ./check "$PROP" --no-evidence "$@" > /tmp/try_seed.out 2>&1; RC=$?
git -C /repo checkout -- . 
grep -c "^VIOLATION" /tmp/try_seed.out | sed "s/^/violations: /"; tail -1 /tmp/try_seed.out; echo "exit=$RC"; grep -A2 "^VIOLATION" /tmp/try_seed.out | head -8; grep "^HARNESS-ERROR" /tmp/try_seed.out | head -3 | cut -c1-300
test -z "$(git -C /repo status --short)" || echo "WARNING repo dirty"
