#!/bin/sh
# re-applies every kept seeded change to /repo, runs the property's quick check, reverts; prints one line per seed
cd /verif
for d in /verif/seeded/*/; do
  n=$(basename "$d"); p=$(python3 -c "import json;print(json.load(open('$d/meta.json'))['property'])")
  r=$(tools/try_seed.sh "$d/patch.diff" "$p" | head -3 | tr '\n' ' ')
  echo "$n ($p): $r"
done
