#!/bin/sh
# re-applies every kept seeded change to /repo, runs the property's quick check, reverts; prints one line per seed
cd /verif
for d in /verif/seeded/*/; do
  n=$(basename "$d"); p=$(python3 -c "import json;print(json.load(open('$d/meta.json'))['property'])")
  cd /repo && git apply "$d/patch.diff" || { echo "$n ($p): patch does not apply"; continue; }
  cd /verif && ./check "$p" --no-evidence > /tmp/run_seed.out 2>&1; rc=$?
  git -C /repo checkout -- .
  obs=$(grep "^  obligation=" /tmp/run_seed.out | sed 's/^  obligation=\([^ ]*\).*/\1/' | sort -u | tr '\n' ' ')
  echo "$n ($p): exit=$rc violations=$(grep -c '^VIOLATION' /tmp/run_seed.out) by: $obs"
done
rm -f /tmp/run_seed.out
test -z "$(git -C /repo status --short)" || echo "WARNING repo dirty"
