from lib.driver import Ob

LEVEL = 'model_checking'
EXPLANATION = ('Small-scope exhaustive exploration driven by the solver: strings are assembled from symbolic indices into an alphabet of character '
               'classes (letter, digit, "$", punctuation, space, CJK, ...); symx enumerates the index space through z3 and runs the real '
               'tokenizers / TrieTree / StringMatcher natively on each string; oracles are an independently written reference tokenizer and a brute-force occurrence search.')
ASSUMPTIONS = ['alphabet: a, B, 7, $, comma, space, CJK ideograph (thorough adds katakana, hangul, NBSP, hyphen)', 'strings up to length 4 (quick) / 5 (thorough)',
               'trie: 2 phrases of 1..2 tokens over a 3-token vocabulary, queries of up to 4 tokens; StringMatcher: 4 phrases, queries up to length 5 (thorough 7)']
OUTSIDE = ['dictionaries of 30 phrases and queries of length 40 (the property sizes) are beyond path enumeration', 'AcAutomaton strategy']
M = 'recognizers_text.matcher.'


def obligations(tier):
    t = 200 if tier == 'quick' else 1500
    n = 4 if tier == 'quick' else 5
    extra = {'wide': 1} if tier == 'thorough' else {}
    na = 11 if tier == 'thorough' else 7
    tok = [dict({'len': n, 'first': f, 'unit': u}, **extra) for u in (0, 1) for f in range(na)]
    tok += [{'len': k, 'unit': u} for u in (0, 1) for k in (1, 2, 3)]
    obs = [Ob('O16.1-tokenize', 'sx', 'harness.C16:h_tokenize', twin='harness.C16:t_tokenize', slices=tok, timeout=t,
              descr='SimpleTokenizer / NumberWithUnitTokenizer: tokens are ordered non-overlapping slices covering every non-space character once; class rules',
              bounds='all strings of length 1..%d over the class alphabet' % n,
              encodes=[M + 'simple_tokenizer:SimpleTokenizer.tokenize', M + 'number_with_unit_tokenizer:NumberWithUnitTokenizer.tokenize',
                       M + 'number_with_unit_tokenizer:NumberWithUnitTokenizer.is_splittable_unit']),
           Ob('O16.2-trie', 'sx', 'harness.C16:h_trie', slices=[{'p1': p} for p in range(12)], timeout=t,
              descr='TrieTree.find reports exactly the occurrences of the inserted token phrases with their ids',
              bounds='2 phrases (1..2 tokens, 3-token vocabulary, same or different id) x all queries of 0..4 tokens',
              encodes=[M + 'trie_tree:TrieTree.insert', M + 'trie_tree:TrieTree.find']),
           Ob('O16.3-string-matcher', 'sx', 'harness.C16:h_string_matcher',
              slices=[{'len': (5 if tier == 'quick' else 7), 'first': f, 'unit': u} for u in (0, 1) for f in range(5)], timeout=t,
              descr='StringMatcher.find: exactly the token-aligned occurrences, with character offsets, text and ids (list and dict initialisation)',
              bounds='phrases a / a b / b$ / 1a; all queries of length 5 (thorough 7) over {a, b, space, $, 1}',
              encodes=[M + 'string_matcher:StringMatcher.find', M + 'string_matcher:StringMatcher.init'])]
    return obs
