from lib.driver import Ob
from props.C12 import sweep_slices

LEVEL = 'model_checking'
EXPLANATION = ('Spans are right if preprocessing preserves length and every unit that creates a result keeps 0 <= start, length >= 1, '
               'start+length <= len(source), text == slice. Preprocessing is checked by CrossHair on a symbolic string (all code points); the span '
               'producing units (number/sequence sweeps, percentage position map, unit extractor, merge_all_tokens, modifier widening and restore, the six Model.parse assemblers) run under symx on '
               'symbolic match/result intervals obeying the regex contract. At API level about 32 000 queries assembled from pools go through 17 real recognisers (en-us, zh-cn; thorough also '
               'es, fr, pt, de) with all real regexes (small-scope enumeration through the solver); call-site monitors attribute anomalies of recorded findings (F36, F37).')
ASSUMPTIONS = ['regex finditer contract for the stubbed match intervals', 'percentage patterns never start/end strictly inside a number token',
               'bounded source length and match count per obligation']
OUTSIDE = ['which intervals the real patterns produce on a sentence outside the composed pools', 'queries in which ChineseMergedExtractor.add_mod changed a result (region of F37)', 'strings longer than 2 characters for the symbolic preprocess check']
S = 'harness.spans:'
MODELS = ['number', 'unit', 'sequence', 'phone', 'datetime', 'choice']


def obligations(tier):
    t = 200 if tier == 'quick' else 1500
    obs = [
        Ob('O1.1-preprocess', 'xh', 'harness.preproc:h_preprocess', slices=[{'len': 1}] + ([{'len': 2, 'c0': a, 'c1': b} for a in ('ascii', 'bmp', 'astral') for b in ('ascii', 'bmp', 'astral')] if tier == 'thorough' else []), timeout=90 if tier == 'quick' else 900,
           descr='QueryProcessor.preprocess keeps the length and maps each character to its documented image (symbolic string, every code point)',
           bounds='|s| = 1 (thorough: 2, partitioned by the code-point class of each character: ASCII / rest of the BMP / astral)', encodes=['recognizers_text.utilities:QueryProcessor.preprocess', 'recognizers_text.utilities:QueryProcessor.lower_keep_length'],
           engine='CrossHair symbolic execution (symbolic str), z3 per path'),
        Ob('O1.1-audit', 'fn', 'harness.preproc:audit_all_code_points', timeout=t,
           descr='audit (concrete): every code point keeps length 1 inside a string, both case modes',
           encodes=['recognizers_text.utilities:QueryProcessor.to_lower_term_sensitive']),
        Ob('O1.2-number-sweep', 'sx', S + 'h_number_sweep', twin=S + 't_number_sweep', slices=sweep_slices(tier), timeout=t,
           descr='number extractor sweep: every result in range, non-empty, text = trimmed slice', bounds='see C12 O12.3',
           encodes=['recognizers_number.number.extractors:BaseNumberExtractor.extract']),
        Ob('O1.2-sequence-sweep', 'sx', S + 'h_sequence_sweep', slices=sweep_slices(tier), timeout=t,
           descr='sequence extractor sweep: every result in range, text = trimmed slice', encodes=['recognizers_sequence.sequence.extractors:SequenceExtractor.extract']),
        Ob('O1.3-percentage', 'sx', S + 'h_percentage', slices=[{'src': 'abcdefg', 'nn': 1}, {'src': 'abcd', 'nn': 2}] +
           ([{'src': 'abcdef', 'nn': 2}, {'src': 'abcdefghi', 'nn': 1}] if tier == 'thorough' else []), timeout=t,
           descr='BasePercentageExtractor: masking numbers and mapping the match back gives the original-coordinate span and its text',
           bounds='source of 7 chars with 1 inner number, 4 chars with 2 (thorough: 9 / 6), one percentage match at symbolic masked positions',
           encodes=['recognizers_number.number.extractors:BasePercentageExtractor.extract']),
        Ob('O1.4-unit-extract', 'sx', S + 'h_unit_extract', twin=S + 't_unit_extract', slices=[{'usrc': 'ab cd ef'}] + ([{'usrc': 'ab  cd ef gh'}] if tier == 'thorough' else []), timeout=t,
           descr='NumberWithUnitExtractor.extract prefix/suffix offset arithmetic: entity in range, text = slice, contains its number, number position recorded relative to the entity',
           bounds='one number, <=1 prefix-unit and <=1 suffix-unit match at symbolic positions in a source of 8 chars (thorough 12)',
           encodes=['recognizers_number_with_unit.number_with_unit.extractors:NumberWithUnitExtractor.extract']),
        Ob('O1.6-merge_all_tokens', 'sx', S + 'h_merge_all_tokens', slices=[{'src': 'abcdef', 'nt': 2}, {'src': 'abcde', 'nt': 3}], timeout=t,
           descr='merge_all_tokens: result spans/text are those of a token', encodes=['recognizers_date_time.date_time.utilities:merge_all_tokens']),
        Ob('O1.8-model-assemble', 'sx', S + 'h_model_assemble', slices=[{'src': 'ab cd ef', 'model': m} for m in MODELS], timeout=t,
           descr='each Model.parse derives end = start + length - 1 (from the span, also when the extractor hands over the trimmed text of an untrimmed span) and keeps the text',
           bounds='two symbolic results in a text of length 8, per model class',
           encodes=['recognizers_number.number.models:AbstractNumberModel.parse', 'recognizers_number_with_unit.number_with_unit.models:AbstractNumberWithUnitModel.parse',
                    'recognizers_sequence.sequence.models:AbstractSequenceModel.parse', 'recognizers_date_time.date_time.models:DateTimeModel.parse',
                    'recognizers_choice.choice.models:ChoiceModel.parse']),
        Ob('O1.7-modifier-restore', 'sx', 'harness.modparse:h_mod_restore', timeout=t,
           slices=[{'text': tx, 'body': 'xx', 'mod': m, 'dtype': d} for d in ('date', 'datetime', 'time') for tx, m in (
               ('before xx', 'before'), ('after  xx', 'after'), ('since xx', 'since'), ('around xx', 'approx'), ('before around xx', 'before-approx'),
               ('no later than xx', 'before'), ('as late as xx', 'until'), ('until xx', 'before'), ('prior to the xx', 'before'), ('later than xx', 'after'),
               ('starting from xx', 'since'), ('xx', ''))] +
                  [{'text': 'xx or later', 'body': 'xx', 'mod': 'since', 'dtype': d} for d in ('date', 'time')] +
                  [{'text': tx, 'body': 'xx', 'mod': '*', 'dtype': d, 'loose_body': 1} for d in ('date', 'datetime') for tx in ('xx and after', 'xx or after', 'xx and later')
                   if not (d == 'datetime' and tx == 'xx and later')],      # 'or/and later' is only attached to dates, times and date periods
           descr='BaseMergedParser.parse strips a modifier, parses the rest at a consistent sub-span, and restores start/length/text of the whole entity; the modifier is reported',
           bounds='entity start offset 0..200 symbolic; one slice per modifier phrase x entity type (real English modifier regexes on the concrete phrase; inner parser stubbed)',
           encodes=['recognizers_date_time.date_time.base_merged:BaseMergedParser.parse', 'recognizers_text.utilities:RegExpUtility.match_begin',
                    'recognizers_text.utilities:RegExpUtility.match_end', 'recognizers_date_time.date_time.base_merged:BaseMergedParser.combine_mod']),
        Ob('O1.7-add-mod', 'sx', 'harness.modparse:h_add_mod', timeout=t,
           slices=[{'phrase': ph} for ph in ('before', 'no later than', 'after', 'since', 'around', 'prior to', 'until')] + [{'phrase': ph, 'suffix': 1} for ph in ('or later', 'and later', 'or above')],
           descr='BaseMergedExtractor.add_mod widens the entity exactly over the modifier phrase (before or after it): span in range, text = slice, has_mod set',
           bounds='0..6 filler characters in front, 0..4 behind, 1..2 blanks between phrase and entity (enumerated through the solver); real English modifier regexes',
           encodes=['recognizers_date_time.date_time.base_merged:BaseMergedExtractor.add_mod', 'recognizers_date_time.date_time.base_merged:BaseMergedExtractor.try_merge_modifier_token',
                    'recognizers_date_time.date_time.base_merged:BaseMergedExtractor.has_token_index']),
        Ob('O1.8-witness', 'fn', 'harness.witness:api_witness', slices=[{'w': 'F2'}], timeout=t, finding='F2', descr='API witness of F2 (empty entity)'),
        Ob('O1.9-witness-double-mod', 'fn', 'harness.witness:api_witness', slices=[{'w': 'F44'}], timeout=t, finding='F44', descr='API witness of F44 (leading and trailing modifier on one entity)'),
        Ob('O1.9-witness-zh', 'fn', 'harness.witness:api_witness', slices=[{'w': 'F37'}], timeout=t, finding='F37', descr='API witness of F37 (zh-cn modifier widening: negative start)'),
    ]
    kinds = ['phone', 'ip', 'email', 'url', 'hashtag', 'mention', 'guid', 'currency', 'dimension', 'number', 'percentage', 'datetime']
    heavy = ('currency', 'datetime', 'phone', 'number')
    cs = []
    for k in kinds:
        cs += [{'kind': k, 'pad': a} for a in range(10)] if k in heavy else [{'kind': k}]
    cs += [{'kind': k, 'culture': 'zh-cn'} for k in ('number', 'percentage', 'currency', 'dimension', 'age', 'temperature', 'datetime')]
    if tier == 'thorough':
        cs += [{'kind': k, 'culture': c} for c in ('es-es', 'fr-fr', 'pt-br', 'de-de') for k in ('number', 'currency', 'dimension', 'datetime') if not (c == 'de-de' and k == 'dimension')]
    obs.append(Ob('O1.9-composed', 'sx', 'harness.compose:h_compose', twin='harness.compose:t_compose', slices=cs, timeout=max(t, 300),
                  descr='API level, all real regexes: queries assembled from pools (pad x prefix x body x tail, incl. dialing prefixes, currency prefixes with a gap, a case-expanding '
                        'code point, CJK and full-width forms, leading blanks) through 12 English recognisers and 5 zh-cn ones (the CJK extractors): 0 <= start <= end < len, text = normalised slice; '
                        'entities pairwise disjoint. Queries in which the Chinese merged extractor widened a result by a modifier are the region of F37 (attributed by a monitor); overlaps of the zh-cn '
                        'unit models across their two extractors are attributed to F36',
                  bounds='10 pads x 3..7 prefixes x 4..10 bodies x 7 tails per recogniser (about 32 000 queries), enumerated through the solver; en-us and zh-cn (thorough: also es-es, fr-fr, pt-br, de-de pools)',
                  encodes=['recognizers_sequence.sequence.extractors:BasePhoneNumberExtractor.extract', 'recognizers_sequence.sequence.extractors:SequenceExtractor.extract',
                           'recognizers_number_with_unit.number_with_unit.extractors:NumberWithUnitExtractor.extract', 'recognizers_date_time.date_time.base_merged:BaseMergedExtractor.extract',
                           'recognizers_number.number.extractors:BaseNumberExtractor.extract', 'recognizers_text.utilities:QueryProcessor.preprocess'],
                  engine='symx (solver-driven small-scope enumeration); the recognisers run natively'))
    cults = ['en-us', 'es-es', 'fr-fr', 'pt-br', 'de-de', 'it-it', 'nl-nl', 'zh-cn', 'ja-jp']
    obs.append(Ob('O1.10-corpus-spans', 'fn', 'harness.corpus:span_scan', slices=[dict({'culture': c}, **({'all_files': 1} if tier == 'thorough' else {})) for c in cults], timeout=max(t, 600),
                  descr='composition check (not a solver verdict): every input of the culture\'s Specs files -- used as a pool of realistic queries; the expected outputs are not consulted -- through the public '
                        'recognisers: 0 <= start <= end < len, text = normalised slice, entities pairwise disjoint; anomalies attributed by the call-site monitors to F3a / F36 / F37 / F41 are excused, the two '
                        'Spanish inputs of F43 are skipped',
                  bounds='model-level files of 9 cultures, about 10 000 queries (thorough: every DateTime / Number / NumberWithUnit Specs file of the culture, about 25 000 queries)',
                  encodes=['recognizers_date_time.date_time.base_merged:BaseMergedExtractor.extract', 'recognizers_date_time.date_time.base_merged:BaseMergedParser.parse']))
    return obs
