from lib.driver import Ob

LEVEL = 'model_checking'
EXPLANATION = ('symx executes the real BaseDurationParser.parse (+ resolution builder) with a symbolic amount N for every unit word, the real date-period parser on two '
               'symbolic absolute endpoints (start day number and gap symbolic), the time-period and date-time-period two-point merges on symbolic clock times / instants, and DateTimeFormatUtil.luis_time_span on symbolic instants; z3 decides every branch.')
ASSUMPTIONS = ['the cardinal extractor / number parser inside the duration parser are stubs returning the symbolic amount for a one-character numeral',
               'float() of an integer amount is exact (N x unit <= 5000 x 31536000 < 2**53), so the symbolic integer stands for the double',
               'the inner date extractor/parser of the period parser are stubs returning two absolute dates at fixed spans; the range text is "from aaaa to bbbb"']
OUTSIDE = ['fractional amounts ("and a half")', 'range entities of Specs inputs whose symbolic exploration does not finish at screening time (harness/c11_inputs*.json, "slow")',
           'decade/quarter/fortnight/weekend units']
B = 'recognizers_date_time.date_time.'


def obligations(tier):
    t = 120 if tier == 'quick' else 600
    units = ['seconds', 'minutes', 'hours', 'days', 'weeks', 'months', 'years'] + (['second', 'minute', 'hour', 'day', 'week', 'month', 'year'] if tier == 'thorough' else ['day', 'year'])
    obs = [Ob('O10.1-duration', 'sx', 'harness.C10:h_duration', twin='harness.C10:t_duration', slices=[{'unit': u} for u in units], timeout=t,
              descr="'N <unit>' -> TIMEX P[T]N<U>, value N x unit length in seconds, type duration", bounds='N 1..5000 symbolic; one slice per unit word',
              encodes=[B + 'base_duration:BaseDurationParser.parse', B + 'base_duration:BaseDurationParser.parse_number_with_unit',
                       B + 'base_duration:BaseDurationParser.parse_number_space_unit', 'recognizers_text.utilities:QueryProcessor.float_or_int']),
           Ob('O10.2-time-span', 'sx', 'harness.C10:h_time_span', timeout=t, descr='luis_time_span: PT[nH][nM][nS] adds up to end - begin',
              bounds='begin any instant 1950..2090, end up to 2 days later', encodes=[B + 'utilities:DateTimeFormatUtil.luis_time_span']),
           Ob('O10.4-two-points', 'sx', 'harness.C10:h_two_points', timeout=t,
              descr='range between two absolute dates: resolved start/end are exactly the endpoints; TIMEX (start,end,PnD) with n = end - start',
              bounds='start any day 1900..2088, end = start + 1..4000 days (both symbolic)',
              encodes=[B + 'base_dateperiod:BaseDatePeriodParser.parse', B + 'base_dateperiod:BaseDatePeriodParser._merge_two_times_points',
                       B + 'utilities:TimexUtil.generate_date_period_timex_str', B + 'utilities:TimexUtil.generate_date_period_timex_unit_count',
                       B + 'utilities:DateContext.sync_year']),
           Ob('O10.5-time-points', 'sx', 'harness.C10:h_time_points', twin='harness.C10:t_time_points', slices=[{'ampm1': a, 'ampm2': b} for a in (0, 1) for b in (0, 1)], timeout=t,
              descr='"from <time> to <time>": BaseTimePeriodParser.merge_two_time_points on two clock times (with / without am-pm mark): start < end <= start + 24 h, '
                    'endpoints on the given clock times (an unmarked one may move by 12 h), and the PT..H..M written in the TIMEX equals end - start (past midnight included)',
              bounds='every h:m for both endpoints (1..12 when unmarked), any reference date 1950..2090 (day <= 28); equal explicit endpoints excluded',
              encodes=[B + 'base_timeperiod:BaseTimePeriodParser.merge_two_time_points'],
              stubs=['time extractor returns two fixed spans', 'time parser returns the symbolic clock time on the reference date with its TIMEX and ampm mark (C07 decides the real one)']),
           Ob('O10.6-datetime-points', 'sx', 'harness.C10b:h_datetime_points', twin='harness.C10b:t_datetime_points', slices=[{'mode': m} for m in ('both', 'begin', 'end')], timeout=t,
              descr='"from <date-time> to <date-time>" (and with a bare clock time on one side, which takes the other side\'s date): BaseDateTimePeriodParser.merge_two_time_points '
                    'resolves to exactly the endpoints and the PT.. duration of the TIMEX equals end - start',
              bounds='begin = every minute of every day 1900..2086; end = begin + 1..20000 minutes (both sides dated) or any clock time later on that day (one side dated)',
              encodes=[B + 'base_datetimeperiod:BaseDateTimePeriodParser.merge_two_time_points', B + 'utilities:DateTimeFormatUtil.luis_time_span'],
              stubs=['date-time / time extractors return fixed spans; their parsers return the symbolic instants with their TIMEX (C06/C07 decide the real ones)'])]
    obs.append(Ob('O10.8-chinese-year-to-year', 'sx', 'harness.C10zh:h_year_to_year', twin='harness.C10zh:t_year_to_year', slices=[{'w1': a, 'w2': b} for a in (2, 4) for b in (2, 4)], timeout=t,
                  descr="Chinese year-to-year period ('98年到05年', '1995年到2005年'): endpoints are 1 January of the two years (two-digit years 90..99 -> 19yy, 00..19 -> 20yy), the TIMEX endpoints are those dates and its duration PnY is end minus start",
                  bounds='years 1000..2999 (four digits) / 0..99 (two digits), both symbolic; one slice per pair of widths',
                  encodes=['recognizers_date_time.date_time.chinese.dateperiod_parser:ChineseDatePeriodParser._parse_year_to_year', 'recognizers_date_time.date_time.chinese.dateperiod_parser:ChineseDatePeriodParser.__sanitize_year'],
                  stubs=['FakeRegex/FakeMatch: the year-to-year pattern matches and the year pattern finds two year groups', 'the CJK number parser inside the period parser returns the symbolic year for the group text']))
    rd = [{'word': w, 'unit': u, 'nmax': 8 if tier == 'quick' else 60} for w in ('next', 'past') for u in (('H',) if tier == 'quick' else ('H', 'M', 'S'))]
    if tier == 'thorough':
        rd += [{'word': w, 'unit': 'H', 'nmax': 30} for w in ('last', 'previous')]
    obs.append(Ob('O10.9-relative-duration', 'sx', 'harness.C10b:h_relative_duration', twin='harness.C10b:t_relative_duration', slices=rd, timeout=max(t, 240),
                  descr="'next / past N hours' through the real BaseDateTimePeriodParser.parse_duration (real English prefix patterns) around a symbolic reference instant: the range is [reference, reference + N units] resp. "
                        '[reference - N units, reference] and the TIMEX endpoints are exactly the resolved start and end (also across midnight, month and year ends)',
                  bounds='reference = every second 1950..2090 (symbolic day number, h, m, s); N = 1..8 (thorough 1..60; concretised by the code\'s float()) hours (thorough: minutes, seconds; last / previous)',
                  encodes=['recognizers_date_time.date_time.base_datetimeperiod:BaseDateTimePeriodParser.parse_duration'],
                  stubs=['duration extractor / parser return one duration of N units; no cardinal numbers in the prefix']))
    zt = [{'fields': f, 'lb1': a_, 'lb2': b_} for f in (1, 2, 3) for a_, b_ in ((-1, -1), (12, -1), (18, 0), (0, 12))]
    if tier == 'thorough':
        zt += [{'fields': f, 'lb1': a_, 'lb2': b_} for f in (2, 3) for a_, b_ in ((11, -1), (18, -1), (12, 18), (0, 0), (-1, 12))]
    obs.append(Ob('O10.10-chinese-time-period', 'sx', 'harness.C10zh:h_zh_time_period', slices=zt, timeout=t,
                  descr='Chinese time period (ChineseTimePeriodParser.parse_time_period / build_timex / build_span) on two symbolic clock times as the Chinese time parser reports them (hour, minute, second, low bound of the day-part word): '
                        'start / end are those clock times (an unmarked end after a marked start stays in the start\'s half of the day), the TIMEX clock times are the resolved ones, the span PT..H..M..S is end - start, the end lies after the start (next day if needed)',
                  bounds='both times any h:m:s (fields per slice), low-bound pattern per slice; resolved hour <= 24', encodes=['recognizers_date_time.date_time.chinese.timeperiod_parser:ChineseTimePeriodParser.parse_time_period',
                           'recognizers_date_time.date_time.chinese.timeperiod_parser:ChineseTimePeriodParser.build_span', 'recognizers_date_time.date_time.chinese.timeperiod_parser:ChineseTimePeriodParser.build_timex'],
                  stubs=['the inner Chinese time parser is a stub returning TimeResult objects with the symbolic fields (its own behaviour is O7.6)']))
    obs.append(Ob('O10.10-witness-zh-span', 'fn', 'harness.witness:api_witness', slices=[{'w': 'F65'}, {'w': 'F66'}], timeout=t, finding='F65', descr='API witnesses of the repaired F65 / F66 (Chinese time period: seconds dropped from the span; end earlier in the same hour): a reappearance is a violation'))
    obs.append(Ob('O10.10-witness-short-left', 'fn', 'harness.witness:api_witness', slices=[{'w': 'F64'}], timeout=t, finding='F64', descr='API witness of F64 (十一到十二点 read as 1 to 12)'))
    obs.append(Ob('O10.11-chinese-durations-api', 'fn', 'harness.C10zh:zh_durations_api', timeout=t,
                  descr='Chinese durations through the public API (small-scope enumeration, not a solver verdict): N <unit>, N <unit>半 and N.5 <unit> for N = 1..30 and seven units: TIMEX P[T]<count><U>, value = count x the unit\'s seconds (count = N or N + 0.5)',
                  bounds='630 texts', encodes=['recognizers_date_time.date_time.chinese.duration_parser:ChineseDurationParser.parse']))
    from props import _corpus
    import json as _json
    slices, counts, _ = _corpus.slices(tier, 'arith', tag='range3', quick_cap=12)
    obs.append(Ob('O10.7-corpus-range-arithmetic', 'sx', 'harness.apidt:h_wellformed', twin=None, slices=slices, timeout=90 if tier == 'quick' else 240,
                  descr='API level, symbolic reference datetime: on the DateTimeModel Specs inputs of each culture that yield a (start,end,duration) TIMEX (inputs only; expected outputs not consulted), for EVERY reference '
                        'datetime: whenever both endpoints of the TIMEX are definite, end minus start equals the stated duration (days, weeks, months / years between like days, hours / minutes / seconds; a time range may cross midnight)',
                  bounds=_corpus.REF + '; inputs per culture %s' % _json.dumps(counts), encodes=_corpus.ENC, stubs=_corpus.STUBS))
    region = _corpus.regions('C10')
    for fid in sorted(region):
        obs.append(Ob('O10.7-known-' + fid, 'sx', 'harness.apidt:h_wellformed', twin=None, slices=region[fid], timeout=90 if tier == 'quick' else 240, finding=fid,
                      descr='the same exploration on the inputs whose counterexample is the recorded finding %s (identified by input): reported as KNOWN-FINDING while open' % fid,
                      bounds=_corpus.REF + '; %d inputs' % len(region[fid]), encodes=_corpus.ENC))
    return obs
