from lib.driver import Ob

LEVEL = 'model_checking'
EXPLANATION = ('CrossHair executes the real BaseTimeParser.match_to_time (English configuration, real am/pm description regexes on the concrete '
               'description string) and the DateTimeFormatUtil time formatters on symbolic hour/minute/second and reference dates; the regex '
               'match object is a stub carrying symbolic-digit group texts; z3 decides every path.')
ASSUMPTIONS = ['regex match objects are replaced by a stub that exposes named groups (hour/min/sec as digit strings, desc as text); '
               'which surface strings the English TimeRegex patterns accept is not decided here',
               'am/pm spellings checked: am, pm, a.m., p.m. (thorough: also a m, p m, a.m, p.m, a. m., p . m .); the bare English suffix "p" ("3:30p") is not an am/pm spelling of the property and is not claimed']
OUTSIDE = ['which match the engine prefers inside longer text (the language layer O7.1 shows a full match exists)', 'written-out times ("half past three"), time zones']
U = 'recognizers_date_time.date_time.utilities:DateTimeFormatUtil.'


def obligations(tier):
    t = 120 if tier == 'quick' else 600
    descs = ['', 'am', 'pm', 'a.m.', 'p.m.'] + (['a m', 'p m', 'a.m', 'p.m', 'a. m.', 'p . m .'] if tier == 'thorough' else [])
    sl = []
    for d in descs:
        for hw in (1, 2):
            for (hm, hs) in ((1, 0), (1, 1), (0, 0)):
                sl.append({'desc': d, 'hw': hw, 'has_min': hm, 'has_sec': hs})
    obs = [Ob('O7.2-match_to_time', 'sx', 'harness.C07:h_match_to_time', twin='harness.C07:t_match_to_time', slices=sl, timeout=t,
              descr='hour/min/sec groups + am/pm description -> 24-hour time, TIMEX THH[:MM[:SS]], ambiguity comment, value on the reference date',
              bounds='h 0..24 (1..12 with am/pm), m,s 0..59, reference date 1950..2090 (day<=28); one slice per description x hour width x fields present',
              encodes=['recognizers_date_time.date_time.base_time:BaseTimeParser.match_to_time'],
              stubs=['FakeMatch (named groups only)', 'digit placeholders for group texts; int() patched in base_time'])]
    obs.append(Ob('O7.3-to_pm', 'sx', 'harness.C07:h_to_pm', slices=[{'has_min': a, 'has_sec': b} for a, b in ((0, 0), (1, 0), (1, 1))], timeout=t,
                  descr='second reading: to_pm / all_str_to_pm move the hour to the other half of the day (h+12 below 12, h-12 from 12 on: always 0..23) in values, timexes, date-times and ranges; durations untouched',
                  bounds='h 0..23, m,s 0..59', encodes=[U + 'to_pm', U + 'all_str_to_pm']))
    obs.append(Ob('O7.5-formatters', 'sx', 'harness.C07:h_short_time', timeout=t,
                  descr='short_time / format_short_time / luis_time / format_time / luis_date_time render the given h:m:s',
                  bounds='h 0..23, m,s 0..59, both flags', encodes=[U + 'short_time', U + 'format_short_time', U + 'luis_time', U + 'format_time', U + 'luis_date_time']))
    sl4 = [{'desc': d, 'has_min': hm, 'has_sec': hs, 'tail': tl} for d in ('', 'am', 'pm') for (hm, hs) in ((1, 0), (1, 1), (0, 0))
           for tl in ('', ' in the afternoon', ' in the morning')]
    obs.append(Ob('O7.4-date-and-time', 'sx', 'harness.C07:h_date_and_time', slices=sl4, timeout=t,
                  descr='<date> at <time>: merge_date_and_time composes the date with the 24-hour time; TIMEX dateTtime; ampm comment propagates exactly for ambiguous hours',
                  bounds='date 1900..2099 (day<=28), h 0..23 (1..12 with am/pm), m,s 0..59; inner extractors/parsers stubbed, the time value comes from the real match_to_time',
                  encodes=['recognizers_date_time.date_time.base_datetime:BaseDateTimeParser.merge_date_and_time'],
                  stubs=['date/time extractors return fixed spans; date parser returns a symbolic date']))
    L = 'harness.layouts:'
    tl = [{'kind': 'time', 'culture': 'en-us', 'layout': l} for l in ('hh:mm', 'hh:mm:ss', 'h:mm ap', 'h ap', 'hap', 'hmmap')]
    obs.append(Ob('O7.1-language', 'fn', L + 'inclusion', slices=tl, timeout=t,
                  descr='every 24-hour time HH:MM[:SS] and every 12-hour time with am/pm/a.m./p.m. is fully matched by one of the English time patterns',
                  bounds='unbounded over the layout language (all h, m, s)', engine='z3 regular-expression solver on an over-approximating translation of the real pattern sources (assertions dropped)',
                  encodes=['recognizers_date_time.date_time.english.time_extractor_config:EnglishTimeExtractorConfiguration.__init__']))
    obs.append(Ob('O7.1-language-parser', 'fn', L + 'inclusion', slices=[dict(x, side='parser') for x in tl], timeout=t,
                  descr='the same layouts are fully matched by one of the patterns of the English time PARSER configuration (an extracted time no parser pattern matches stays unresolved)',
                  bounds='unbounded over the layout language', engine='z3 regular-expression solver on an over-approximating translation of the real pattern sources (assertions dropped)',
                  encodes=['recognizers_date_time.date_time.english.time_parser_config:EnglishTimeParserConfiguration.__init__']))
    obs.append(Ob('O7.1-api-members', 'fn', L + 'api_members', slices=[dict(x, n=12 if tier == 'quick' else 80) for x in tl], timeout=t,
                  descr='composition check: solver-generated times resolve through recognize_datetime to that time', bounds='12 (thorough 80) z3 models per layout'))
    zw = ['', '下午', '中午', '晚上', '上午', '凌晨'] + (['午后', '夜里', '夜晚', '夜间', '深夜', '傍晚', '早上', '清晨'] if tier == 'thorough' else [])
    zs = [{'desc': w, 'form': f} for w in zw for f in (('digit', 'cjk', 'hour', 'half') if tier == 'quick' else ('digit', 'cjk', 'hour', 'half', 'quarter', 'quarter3'))]
    Z = 'recognizers_date_time.date_time.chinese.'
    obs.append(Ob('O7.6-chinese-time', 'sx', 'harness.C07zh:h_zh_time', twin='harness.C07zh:t_zh_time', slices=zs, timeout=t,
                  descr='Chinese clock times: hour/min/sec captures of a real match of the real extractor (values replaced by symbolic digit placeholders) + day-part word -> the hour inside the '
                        'word\'s window that is congruent to the stated hour modulo 12 (下午12点 is 12, 下午5点 is 17, 晚上12点 is 24 = 00), minutes / seconds / half / quarters exact, TIMEX = value',
                  bounds='h 0..24 restricted to the hours the day-part word can describe, m,s 0..59; one slice per day-part word x spelling form (H:MM:SS, H点M分S秒, H点, H点半, quarters in thorough); '
                         'a 24-hour-clock hour outside the word\'s window (傍晚13点) is finding F49',
                  encodes=[Z + 'time_parser:ChineseTimeParser.parse', Z + 'time_parser:ChineseTimeParser.handle_digit', Z + 'time_parser:ChineseTimeParser.handle_chinese',
                           Z + 'time_parser:ChineseTimeParser.pack_time_result', Z + 'base_date_time_extractor:TimeResolutionUtils.add_description',
                           Z + 'base_date_time_extractor:TimeResolutionUtils.match_to_value'],
                  stubs=['the DateTimeExtra comes from a real extractor match on a concrete template; only the hour/min/sec capture texts are replaced by placeholders']))
    obs.append(Ob('O7.6-chinese-api', 'fn', 'harness.C07zh:api_hours', timeout=t,
                  descr='composition through the public API (small-scope enumeration, not a solver verdict): every hour 0..24 x 14 day-part words x the spellings H点, H:30, H点半 is one time entity over the whole text with the hour of O7.6-chinese-time',
                  bounds='818 texts', encodes=[Z + 'time_extractor:ChineseTimeExtractor.__init__']))
    zd = [{'desc': w, 'form': f} for w in zw for f in ('digit', 'hour', 'half')] if tier == 'quick' else zs
    obs.append(Ob('O7.7-chinese-date-and-time', 'sx', 'harness.C07zh:h_zh_date_and_time', slices=zd, timeout=t,
                  descr="Chinese '<date><day-part word><time>' through the real ChineseDateTimeParser._merge_date_and_time (date parser stubbed with a symbolic date, time from the real Chinese time parser): the date-time is composed of "
                        'that date and of the time exactly as the time parser resolves it alone; TIMEX = date + T + that hour',
                  bounds='date 1900..2099 (day <= 28), h 0..24 within the word\'s natural hours, m,s 0..59; region of F62 (evening word + 12, morning word + hour >= 12) excluded and searched separately',
                  encodes=[Z + 'datetime_parser:ChineseDateTimeParser._merge_date_and_time'], stubs=['date extractor / parser deliver one symbolic date; the time extractor delivers the real match of the template']))
    obs.append(Ob('O7.7-known-f62', 'sx', 'harness.C07zh:h_zh_date_and_time', slices=[{'desc': '晚上', 'form': 'hour', 'f62': 'only'}, {'desc': '早上', 'form': 'digit', 'f62': 'only'}], timeout=t, finding='F62',
                  descr='region of finding F62 (the merge step re-applies a morning / evening shift the time parser has already decided)'))
    sw = [('spanish', 'de la tarde', 'pm'), ('spanish', 'de la noche', 'pm'), ('spanish', 'de la mañana', 'am'), ('spanish', 'de la madrugada', 'am'), ('french', 'du soir', 'pm'), ('french', 'du matin', 'am'),
          ('portuguese', 'da manhã', 'am'), ('italian', 'di mattina', 'am'), ('italian', 'del mattino', 'am'), ('german', 'morgens', 'am'), ('dutch', 'in de middag', 'pm'), ('dutch', "'s middags", 'pm'),
          ('dutch', "'s avonds", 'pm'), ('dutch', "'s ochtends", 'am')]
    obs.append(Ob('O7.8-suffix-cultures', 'sx', 'harness.C07x:h_suffix', twin='harness.C07x:t_suffix', slices=[{'lang': l, 'word': w, 'kind': k} for l, w, k in sw], timeout=t,
                  descr="worded am / pm suffixes of es, fr, pt, it, de, nl ('de la tarde', 'du soir', 'da manhã', \"'s avonds\" ...) through the real BaseTimeParser.match_to_time with each culture's real configuration "
                        '(adjust_by_suffix and its suffix patterns): a pm word turns an hour below 12 into hour + 12 and leaves 12 alone, an am word turns 12 into 0; the time is not ambiguous',
                  bounds='h 1..12, m 0..59; one slice per (culture, word) the port supports; the pm words of pt / it / de are finding F67',
                  encodes=['recognizers_date_time.date_time.base_time:BaseTimeParser.match_to_time', 'recognizers_date_time.date_time.spanish.time_parser_config:SpanishTimeParserConfiguration.adjust_by_suffix'],
                  stubs=['regex match object stub with the groups hour / min / suffix']))
    f67 = [('portuguese', 'da tarde', 'pm'), ('italian', 'del pomeriggio', 'pm'), ('italian', 'di sera', 'pm'), ('german', 'nachmittags', 'pm'), ('german', 'am nachmittag', 'pm')]
    obs.append(Ob('O7.8-known-f67', 'sx', 'harness.C07x:h_suffix', slices=[{'lang': l, 'word': w, 'kind': k} for l, w, k in f67], timeout=t, finding='F67', descr='region of finding F67 (hour 12 with a worded pm suffix stays ambiguous in pt, it, de)'))
    obs.append(Ob('O7.6-witness-f49', 'fn', 'harness.witness:api_witness', slices=[{'w': 'F49'}], timeout=t, finding='F49', descr='API witness of F49 (傍晚13点 -> TIMEX T25, value 00:00:00)'))
    return obs
