"""Shared by C09 / C10 / C11: the pools of DateTimeModel Specs inputs (per culture) screened by tools/screen_c11.py for the
symbolic-reference obligations on the whole model (harness.apidt:h_wellformed).  The corpus' expected outputs are never read."""
import json
import os

H = os.path.join(os.path.dirname(os.path.dirname(os.path.abspath(__file__))), 'harness')
CULTURES = ('en-us', 'zh-cn', 'es-es', 'fr-fr', 'pt-br', 'de-de', 'it-it', 'nl-nl')
ENC = ['recognizers_date_time.date_time.base_merged:BaseMergedParser.parse', 'recognizers_date_time.date_time.base_merged:BaseMergedParser.set_parse_result',
       'recognizers_date_time.date_time.models:DateTimeModel.parse']
STUBS = ['DateTimeModel.parse mirrored with the same swallow-exceptions behaviour for parser errors; unmodelled calendar operations end the slice as inconclusive']
REF = 'reference = every minute 1950-01-01..2090-12-31 (symbolic day number, hour, minute)'


def known():
    return json.load(open(os.path.join(H, 'c11_known.json'), encoding='utf-8'))          # culture -> finding id -> inputs whose counterexample is that recorded finding


def regions(prop):
    """finding id -> slices (check = all) for the findings recorded against property `prop` whose instances are identified by input"""
    kf = {e['id']: e for e in json.load(open(os.path.join(os.path.dirname(H), 'known_findings.json'), encoding='utf-8'))['findings']}
    out = {}
    for cult, m in known().items():
        for fid, qs in m.items():
            if kf.get(fid, {}).get('property') == prop:
                out.setdefault(fid, []).extend(({'q': q, 'check': 'all'} if cult == 'en-us' else {'q': q, 'culture': cult, 'check': 'all'}) for q in qs)
    return out


def slices(tier, check, tag=None, quick_cap=None):
    """-> (slices, counts per culture, region slices per finding id)"""
    kn = known()
    out, counts, region = [], {}, {}
    for cult in CULTURES:
        f = os.path.join(H, 'c11_inputs.json' if cult == 'en-us' else 'c11_inputs_%s.json' % cult)
        if not os.path.exists(f):
            continue
        pool = json.load(open(f, encoding='utf-8'))
        listed = set(q for qs in kn.get(cult, {}).values() for q in qs)
        ok = [x for x in pool['discharged'] if x['q'] not in listed and (tag is None or tag in x.get('tags', []))]
        extra = [q for q in pool.get('recheck', []) if q not in listed] if tag is None else []          # inputs of repaired findings: always checked
        if tier == 'quick':
            # stratified sample: the fastest input of every distinct output-shape signature (tools/tag_c11.py), round-robin up to the cap
            fast = sorted((x for x in ok if x['wall'] <= 12), key=lambda x: (x['wall'], x['q']))
            seen, qs = set(), []
            for x in fast:
                sg = x.get('sig', x['q'])
                if sg not in seen:
                    seen.add(sg)
                    qs.append(x['q'])
            cap = quick_cap.get(cult, quick_cap.get('*')) if isinstance(quick_cap, dict) else quick_cap
            if cap and len(qs) > cap:
                step = len(qs) / float(cap)
                qs = [qs[int(i * step)] for i in range(cap)]
            qs += extra
        else:
            qs = [x['q'] for x in ok] + extra
        counts[cult] = len(qs)
        mk = (lambda q: {'q': q, 'check': check}) if cult == 'en-us' else (lambda q, c=cult: {'q': q, 'culture': c, 'check': check})
        out += [mk(q) for q in qs]
        for fid, qs_ in kn.get(cult, {}).items():
            region.setdefault(fid, []).extend(mk(q) for q in qs_)
    return out, counts, region
