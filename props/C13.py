from lib.driver import Ob

LEVEL = 'model_checking'
EXPLANATION = ('The real IPv4 / IPv6 / GUID patterns are read from the /repo resource modules at run time, translated to z3 regular expressions (lib/rx2smt.py, '
               'validated against the real regex engine on solver-generated members) and proved EQUAL, for strings of any length, to oracle languages built '
               'independently from the address grammars (z3 derivative-based regex solver). Solver-generated members and near-misses are then pushed through '
               'the public recogniser inside a carrier sentence, and the canonicaliser drop_leading_zeros is confirmed by CrossHair on symbolic digit strings.')
ASSUMPTIONS = ['the word-boundary assertions at the pattern edges are stripped and reported; token isolation is exercised only by the API composition check on solver witnesses',
               '\\d is read as ASCII digits (Unicode digits are accepted by the real engine: observation N1, outside the ASCII quantifier of the property)']
OUTSIDE = ['exact (two-sided) language claims for e-mail, URL, hashtag, mention and phone patterns: only the inclusion of well-formed layouts in the over-approximated patterns is decided (O13.5)',
           'which match a backtracking engine prefers inside longer text (only token-isolated witnesses are run through the API)']
S = 'recognizers_sequence.'


def obligations(tier):
    t = 200 if tier == 'quick' else 900
    langs = ['ipv4', 'ipv6', 'guid']
    obs = [Ob('O13.1-language-equivalence', 'fn', 'harness.C13:equivalence', slices=[{'lang': l} for l in langs], timeout=t,
              descr='L(real pattern core) == L(grammar oracle): IPv4 dotted quad 0..255, RFC 4291 IPv6 text forms, GUID layouts', bounds='unbounded string length',
              encodes=[], engine='z3 regular-expression solver on a translation of the pattern source regenerated from /repo each run'),
           Ob('O13.2-api-composition', 'fn', 'harness.C13:witnesses_through_api', slices=[{'lang': l, 'n': 40 if tier == 'quick' else 300} for l in langs], timeout=t,
              descr='solver-generated members + boundary addresses are recognised as their own token with exact span and same-address value; near-misses are not reported as a whole',
              bounds='40 (thorough 300) z3 models of each oracle language + listed boundary cases; validation of the composition, not a universal verdict',
              encodes=[S + 'sequence.extractors:BaseIpExtractor.extract', S + 'sequence.parsers:BaseIpParser.parse']),
           Ob('O13.4-canonical-value', 'xh', 'harness.C13:h_drop_leading_zeros', timeout=t,
              descr='drop_leading_zeros keeps the number of every group and removes superfluous zeros', bounds='two symbolic groups of 1..3 ASCII digits (all 1110^2 combinations)',
              encodes=[S + 'sequence.parsers:BaseIpParser.drop_leading_zeros'], engine='CrossHair symbolic execution (symbolic str), z3 per path'),
           Ob('O13.4-canonical-group', 'xh', 'harness.C13:h_drop_zeros_group', slices=[{'pos': p, 'sep': sp, 'glen': (3 if tier == 'quick' or sp == '.' else 4)} for sp in ('.', ':') for p in (0, 1, 3)], timeout=max(t, 240),
              descr='one symbolic group in first / inner / LAST position of an IPv4 (1..3 digits) or IPv6 (1..4 hex digits) text: same number, no superfluous zero, "0" for an all-zero group, '
                    'the other groups and the separators untouched (the end-of-text branch of the function is separate code)',
              bounds='every group string over the digit alphabet up to 3 characters / the hex alphabet up to 3 (thorough 4) characters', encodes=[S + 'sequence.parsers:BaseIpParser.drop_leading_zeros'],
              engine='CrossHair symbolic execution (symbolic str), z3 per path')]
    L = 'harness.layouts:'
    seq = [('email', 'address'), ('hashtag', 'tag'), ('mention', 'user'), ('url', 'scheme-host-path'), ('url', 'www-host'), ('url', 'bare-host'),
           ('phone', 'us-dashed'), ('phone', 'us-paren'), ('phone', 'us-plus1'), ('phone', 'seven')]
    sl = [{'kind': k, 'culture': 'en-us', 'layout': l} for k, l in seq]
    obs.append(Ob('O13.5-sequence-language', 'fn', L + 'inclusion', slices=sl, timeout=t,
                  descr='every well-formed e-mail address, hashtag, mention, URL with a listed TLD (three layouts) and phone number (four North-American layouts) is fully matched by one of the '
                        'patterns the English sequence extractor compiles (necessary condition for recognition; unbounded over the layout language)',
                  bounds='layout languages: local part / host labels of 1..8 alphanumerics with ._+- separators, any number of labels; tags and user names of 1..12 characters',
                  engine='z3 regular-expression solver on an over-approximating translation of the real pattern sources (assertions dropped)',
                  encodes=[S + 'sequence.extractors:BaseEmailExtractor', S + 'sequence.extractors:BaseURLExtractor', S + 'sequence.extractors:BasePhoneNumberExtractor']))
    obs.append(Ob('O13.5-sequence-api', 'fn', L + 'api_members', slices=[dict(x, n=12 if tier == 'quick' else 80) for x in sl], timeout=t,
                  descr='composition check: solver-generated members of each layout come back from recognize_email / _hashtag / _mention / _url / _phone_number as one entity whose value equals its text',
                  bounds='12 (thorough 80) z3 models per layout; validation of the composition, not a universal verdict'))
    return obs
