from lib.driver import Ob

LEVEL = 'model_checking'
EXPLANATION = ('[English] The real BaseNumberParser.__get_int_value (English maps and resolve_composite_number) runs natively (symx) on token lists whose number words are placeholders '
               'with symbolic values, one run per token shape; the result must equal the sum of group values x 1000^k for every value assignment at once. Shapes come from an '
               'independent spelling grammar (with/without "and", hyphenated tens) and each is validated against the real tokenising regex on a concrete instance. [fr, de, nl, it, pt, es, zh, ja] The same kernel (CJKNumberParser.get_int_value for zh/ja) with the culture\'s real '
               'configuration runs on every token shape that independent spellers (harness/spell.py) produce for the sample numbers; the oracle is an independent positional evaluator; the same numbers go through recognize_number.')
ASSUMPTIONS = ['token shapes: per three-digit group u | teen | tens | tens ones | u hundred [and] (u | teen | tens | tens ones); groups units..trillion',
               'quick: every one-group shape and the two-group shapes of (thousand|million|trillion, units) and (million, thousand) with 5 patterns for the higher group; thorough: all two-group and selected three-group shapes', 'ordinals: the last word in its ordinal form (first..ninth, tenth..nineteenth, twentieth.., hundredth, thousandth, ...)',
               'Decimal(tmp_val) at the end is the exact proxy of harness/symdec.py']
OUTSIDE = ['the extraction regexes (which spellings are extracted as one entity) and BaseMergedNumberExtractor', 'ordinals of Spanish, French, Portuguese, Chinese, Japanese (Italian, German, Dutch: one-word ordinals 1..9999 through the API only)', 'Japanese numerals from 10^4 (万) upwards (recorded findings F34, F35)', 'spellings of the recorded findings F26-F29', 'zero, "a hundred", dozens, fractions, decimals ("point five")', 'CJK fractions, decimals, dozens and pairs']
N = 'recognizers_number.number.parsers:'


def _shapes(max_groups, quick):
    import itertools
    pats = ['u', 't', 'd', 'du', 'h', 'hu', 'ht', 'hd', 'hdu', 'hAu', 'hAt', 'hAd', 'hAdu']
    few = ['u', 'du', 'h', 'hdu', 'hAt']
    out = []
    for r in range(1, max_groups + 1):
        for gis in itertools.combinations(range(4, -1, -1), r):
            if r == 3 and gis not in ((4, 2, 0), (2, 1, 0), (3, 1, 0)):
                continue
            if r == 2 and quick and gis not in ((1, 0), (2, 0), (4, 0), (2, 1)):
                continue
            if r == 1:
                choices = [pats]
            elif r == 2:
                choices = [few if quick else pats, pats]
            else:
                choices = [['u', 'du', 'hdu', 'hAt']] * 3
            for ps in itertools.product(*choices):
                out.append([[g, p] for g, p in zip(gis, ps)])
    return out


def obligations(tier):
    t = 200 if tier == 'quick' else 1200
    shapes = _shapes(2 if tier == 'quick' else 3, tier == 'quick')
    B = 70
    batches = [shapes[i:i + B] for i in range(0, len(shapes), B)]
    sl = [{'shapes': b, 'ordinal': o} for o in (0, 1) for b in batches]
    obs = [Ob('O4.1-int-value', 'sx', 'harness.C04:h_int_value', twin='harness.C04:t_int_value', slices=sl, timeout=t,
              descr='__get_int_value: token list of a shape -> the integer it denotes, cardinal and ordinal, for every value of the number words',
              bounds='%d token shapes (<= %d non-zero groups of units..trillion) x {cardinal, ordinal}; ones 1..9, teens 10..19, tens 20..90 symbolic' % (len(shapes), 2 if tier == 'quick' else 3),
              encodes=[N + 'BaseNumberParser.__get_int_value', 'recognizers_number.number.english.parsers:EnglishNumberParserConfiguration.resolve_composite_number'],
              stubs=['number words -> placeholder keys with symbolic values added to copies of the real cardinal/ordinal maps', 'Decimal -> exact proxy']),
           Ob('O4.3-tokenisation', 'fn', 'harness.C04:validate_shapes', slices=sl, timeout=t,
              descr='validation (not a verdict): the real text_number_regex tokenises a concrete standard spelling of every shape into exactly the assumed tokens, and the real pipeline returns the number',
              encodes=[N + 'BaseNumberParser._text_number_parse'])]
    es = _es_shapes(tier == 'quick')
    EB = 60
    esl = [{'shapes': es[i:i + EB]} for i in range(0, len(es), EB)]
    obs.append(Ob('O4.1-int-value-es', 'sx', 'harness.C04es:h_int_value', twin='harness.C04es:t_int_value', slices=esl, timeout=t,
                  descr='Spanish cardinals: __get_int_value with the Spanish configuration on token shapes (1..29 single words, tens [y unit], cien / hundreds word + rest, '
                        '[n] mil, un millón / n millones incl. thousands of millions, un billón / n billones) -> the integer, for every value of the number words',
                  bounds='%d shapes below 10^15; words 1..29, tens 30..90, units 1..9, hundreds 100..900 symbolic' % len(es),
                  encodes=[N + 'BaseNumberParser.__get_int_value', 'recognizers_number.number.spanish.parsers:SpanishNumberParserConfiguration.resolve_composite_number'],
                  stubs=['number words -> placeholder keys with symbolic values added to a copy of the real Spanish cardinal map', 'Decimal -> exact proxy']))
    obs.append(Ob('O4.3-tokenisation-es', 'fn', 'harness.C04es:validate_shapes', slices=esl, timeout=t,
                  descr='validation (not a verdict): a concrete standard Spanish spelling of every shape is tokenised into the assumed tokens, the kernel returns the number and '
                        'recognize_number returns it as one entity (except the shapes of known finding F26)',
                  encodes=[N + 'BaseNumberParser._text_number_parse']))
    f26 = [x for x in es if any(lv in ('M', 'B') and pt.startswith('K:1+') for lv, pt in x)]
    obs.append(Ob('O4.3-mil-millones', 'fn', 'harness.C04es:validate_shapes', slices=[{'shapes': f26, 'kf26': 1}], timeout=t, finding='F26',
                  descr='region F26: a millions group headed by a bare "mil" ("mil millones", "mil once millones") is not extracted as one entity'))
    NP = 4 if tier == 'quick' else 12
    KX = {} if tier == 'quick' else {'k': 4000}
    for lang in ('french', 'german', 'dutch', 'italian', 'portuguese', 'spanish'):
        obs.append(Ob('O4.1-int-value-%s' % lang[:2], 'sx', 'harness.C04x:h_int_value', twin='harness.C04x:t_int_value', slices=[dict({'lang': lang, 'part': i, 'nparts': NP}, **KX) for i in range(NP)], timeout=max(t, 600),
                      descr='%s cardinals: __get_int_value with the real %s configuration on every token shape that the standard spellings of the sample numbers produce '
                            '(spelled by an independent speller, tokenised by the real text_number_regex, number words abstracted to their kind): the kernel returns what an '
                            'independent positional evaluator gives, for every value of the number words' % (lang.capitalize(), lang.capitalize()),
                      bounds='shapes of ~550 (thorough ~4100) boundary and sample numbers below the speller limit (10^9; pt 10^6; es 10^12); units 1..9, words 10..19 (es ..29), tens 20..90, hundreds words 100..900 symbolic',
                      encodes=[N + 'BaseNumberParser.__get_int_value'],
                      stubs=['number words -> placeholder keys with symbolic values added to a copy of the real cardinal map', 'Decimal -> exact proxy']))
        obs.append(Ob('O4.3-api-%s' % lang[:2], 'fn', 'harness.C04x:validate', slices=[dict({'lang': lang}, **KX)], timeout=max(t, 600),
                      descr='composition check (not a verdict): every sample number, spelled independently, comes back from recognize_number as one entity with its value; its shape is in the verified set',
                      encodes=[N + 'BaseNumberParser._text_number_parse']))
    for lang, fid, what in (('french', 'F27', 'plural "cents" and "un million ..."'), ('italian', 'F28', 'accented "-tré"'), ('portuguese', 'F29', '"catorze"'), ('spanish', 'F26', '"mil ... millones"')):
        obs.append(Ob('O4.3-known-%s' % lang[:2], 'fn', 'harness.C04x:validate', slices=[{'lang': lang, 'kf': 1}], timeout=max(t, 600), finding=fid,
                      descr='region %s: %s' % (fid, what)))
    for lang in ('chinese', 'japanese'):
        np_ = 4 if lang == 'chinese' else 1
        obs.append(Ob('O4.1-int-value-%s' % {'chinese': 'zh', 'japanese': 'ja'}[lang], 'sx', 'harness.C04cjk:h_int_value', twin='harness.C04cjk:t_int_value',
                      slices=[dict({'lang': lang, 'part': i, 'nparts': np_}, **KX) for i in range(np_)], timeout=max(t, 600),
                      descr='%s numerals: CJKNumberParser.get_int_value on every numeral shape the standard spellings of the sample numbers produce (digit characters 1..9 replaced by '
                            'placeholder characters with symbolic values in a copy of the real zero_to_nine_map; round and zero characters literal): the kernel returns what the '
                            'independent positional evaluator gives' % lang.capitalize(),
                      bounds='shapes of the sample numbers below 10^12 (Chinese) / 10^4 (Japanese: beyond 万 see F34, F35); every digit 1..9 symbolic',
                      encodes=['recognizers_number.number.cjk_parsers:CJKNumberParser.get_int_value'],
                      stubs=['digit characters -> placeholder characters with symbolic values added to a copy of the real digit map']))
        obs.append(Ob('O4.3-api-%s' % {'chinese': 'zh', 'japanese': 'ja'}[lang], 'fn', 'harness.C04cjk:validate', slices=[dict({'lang': lang}, **KX)], timeout=max(t, 600),
                      descr='composition check (not a verdict): every sample numeral comes back from recognize_number as one entity with its value; its shape is in the verified set'))
    obs.append(Ob('O4.3-known-ja', 'fn', 'harness.C04cjk:validate', slices=[{'lang': 'japanese', 'kf': 1}], timeout=t, finding='F34', descr='region F34: bare 百 / 千'))
    obs.append(Ob('O4.3-witness-ja', 'fn', 'harness.C04cjk:ja_witness', slices=[{'w': 'F34'}], timeout=t, finding='F34', descr='API witness of F34 beyond 万'))
    obs.append(Ob('O4.3-witness-ja2', 'fn', 'harness.C04cjk:ja_witness', slices=[{'w': 'F35'}], timeout=t, finding='F35', descr='API witness of F35'))
    hi = 999 if tier == 'quick' else 9999
    obs.append(Ob('O4.5-ordinals-api', 'fn', 'harness.C04ord:ordinals_api', slices=[{'lang': l, 'hi': hi} for l in ('italian', 'german', 'dutch')], timeout=t,
                  descr='ordinals of the compound-word cultures through the public ordinal model (small-scope enumeration through the API, every n of the range; not a solver verdict): the one-word ordinal an independent speller writes for n '
                        'is one entity with value n',
                  bounds='n = 1..%d per culture (Italian, German, Dutch); Italian x10th / x000th (own forms) not generated; region of F59 (Italian) and of the repaired F60 (German 40th..49th) searched separately' % hi,
                  encodes=['recognizers_number.number.parsers:BaseNumberParser._get_text_number_regex', 'recognizers_number.number.parsers:BaseNumberParser._text_number_parse']))
    obs.append(Ob('O4.5-ordinals-known-it', 'fn', 'harness.C04ord:ordinals_api', slices=[{'lang': 'italian', 'hi': hi, 'region': 'known'}], timeout=t, finding='F59', descr='region of the repaired finding F59 (Italian ordinals above 100 ending in -undicesimo / -tredicesimo / -centesimo): a reappearance is a violation'))
    obs.append(Ob('O4.5-ordinals-known-de', 'fn', 'harness.C04ord:ordinals_api', slices=[{'lang': 'german', 'hi': hi, 'region': 'known'}], timeout=t, finding='F60', descr='region of the repaired finding F60 (German ordinals 40th..49th): a reappearance is a violation'))
    return obs


def _es_shapes(quick):
    below = ['w', 'd', 'dyu', 'C', 'c', 'cw', 'cd', 'cdyu']
    few = ['w', 'dyu', 'C', 'cdyu']
    b = few if quick else below
    out = [[['u', p]] for p in below]
    out += [[['K', p]] for p in ['1'] + below]
    out += [[['K', pk], ['u', pu]] for pk in ['1'] + b for pu in b]
    ms = ['1'] + b + ['K:1+', 'K:w+', 'K:cdyu+cw', 'K:1+dyu', 'K:d+C']
    out += [[['M', pm]] for pm in ms]
    out += [[['M', pm], ['u', pu]] for pm in ['1', 'w', 'cdyu', 'K:w+cd'] for pu in few]
    out += [[['M', pm], ['K', pk]] for pm in ['1', 'dyu', 'K:1+w'] for pk in ['1'] + few]
    out += [[['M', pm], ['K', pk], ['u', pu]] for pm in ['1', 'cw'] for pk in ['1', 'cdyu'] for pu in ['w', 'cdyu']]
    out += [[['B', pb]] for pb in ['1'] + few]
    out += [[['B', pb], ['M', pm], ['K', pk], ['u', pu]] for pb in ['1', 'w'] for pm in ['dyu', 'K:w+C'] for pk in ['1', 'cw'] for pu in ['w', 'dyu']]
    return out
