from lib.driver import Ob

LEVEL = 'model_checking'
EXPLANATION = ('The real BaseNumberParser.__get_int_value (English maps and resolve_composite_number) runs natively (symx) on token lists whose number words are placeholders '
               'with symbolic values, one run per token shape; the result must equal the sum of group values x 1000^k for every value assignment at once. Shapes come from an '
               'independent spelling grammar (with/without "and", hyphenated tens) and each is validated against the real tokenising regex on a concrete instance.')
ASSUMPTIONS = ['token shapes: per three-digit group u | teen | tens | tens ones | u hundred [and] (u | teen | tens | tens ones); groups units..trillion',
               'quick: every one-group shape and the two-group shapes of (thousand|million|trillion, units) and (million, thousand) with 5 patterns for the higher group; thorough: all two-group and selected three-group shapes', 'ordinals: the last word in its ordinal form (first..ninth, tenth..nineteenth, twentieth.., hundredth, thousandth, ...)',
               'Decimal(tmp_val) at the end is the exact proxy of harness/symdec.py']
OUTSIDE = ['the extraction regexes (which spellings are extracted as one entity) and BaseMergedNumberExtractor', 'cultures other than English', 'zero, "a hundred", dozens, fractions, decimals ("point five")',
           'CJKNumberParser']
N = 'recognizers_number.number.parsers:'


def _shapes(max_groups, quick):
    import itertools
    pats = ['u', 't', 'd', 'du', 'h', 'hu', 'ht', 'hd', 'hdu', 'hAu', 'hAt', 'hAd', 'hAdu']
    few = ['u', 'du', 'h', 'hdu', 'hAt']
    out = []
    for r in range(1, max_groups + 1):
        for gis in itertools.combinations(range(4, -1, -1), r):
            if r == 3 and gis not in ((4, 2, 0), (2, 1, 0), (3, 1, 0)):
                continue
            if r == 2 and quick and gis not in ((1, 0), (2, 0), (4, 0), (2, 1)):
                continue
            if r == 1:
                choices = [pats]
            elif r == 2:
                choices = [few if quick else pats, pats]
            else:
                choices = [['u', 'du', 'hdu', 'hAt']] * 3
            for ps in itertools.product(*choices):
                out.append([[g, p] for g, p in zip(gis, ps)])
    return out


def obligations(tier):
    t = 200 if tier == 'quick' else 1200
    shapes = _shapes(2 if tier == 'quick' else 3, tier == 'quick')
    B = 70
    batches = [shapes[i:i + B] for i in range(0, len(shapes), B)]
    sl = [{'shapes': b, 'ordinal': o} for o in (0, 1) for b in batches]
    obs = [Ob('O4.1-int-value', 'sx', 'harness.C04:h_int_value', twin='harness.C04:t_int_value', slices=sl, timeout=t,
              descr='__get_int_value: token list of a shape -> the integer it denotes, cardinal and ordinal, for every value of the number words',
              bounds='%d token shapes (<= %d non-zero groups of units..trillion) x {cardinal, ordinal}; ones 1..9, teens 10..19, tens 20..90 symbolic' % (len(shapes), 2 if tier == 'quick' else 3),
              encodes=[N + 'BaseNumberParser.__get_int_value', 'recognizers_number.number.english.parsers:EnglishNumberParserConfiguration.resolve_composite_number'],
              stubs=['number words -> placeholder keys with symbolic values added to copies of the real cardinal/ordinal maps', 'Decimal -> exact proxy']),
           Ob('O4.3-tokenisation', 'fn', 'harness.C04:validate_shapes', slices=sl, timeout=t,
              descr='validation (not a verdict): the real text_number_regex tokenises a concrete standard spelling of every shape into exactly the assumed tokens, and the real pipeline returns the number',
              encodes=[N + 'BaseNumberParser._text_number_parse'])]
    return obs
