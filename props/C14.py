from lib.driver import Ob
from lib import env
env.setup_paths()

LEVEL = 'model_checking'
EXPLANATION = ('The real TimexParsing/TimexRegex(stdlib re)/Timex.assign_properties/TimexInference/TimexFormat pipeline is executed on '
               'symbolic-digit strings: every number field of a TIMEX is a placeholder standing for a symbolic int (sound because the '
               'patterns only test digit-ness -- checked on the real regex source each run); CrossHair+z3 decide every branch the code '
               'takes on the values. One slice per grammar pattern (and enum alternative), field values symbolic over their whole range.')
ASSUMPTIONS = ['stdlib re and decimal.Decimal(str)/str(Decimal) are trusted; Decimal amounts are modelled by a text-preserving stub (Amt)',
               'field ranges: year 1..9999, month 1..12, day 1..31, weekday 1..7, ISO week 1..53, week of month 1..5, hour 0..23, minute/second 0..59',
               'explicit (start,end,duration) ranges are not in the property statement grammar list and are not covered',
               'date-RANGE pattern + T part: see known finding F19 (its region is characterised by O14.5-range+time)']
OUTSIDE = ['(start,end,duration) range TIMEXes', 'field values outside the calendar ranges (month 00, hour 99, ...)']

P = 'datatypes_timex_expression.'
ENC = [P + 'timex_parsing:TimexParsing.parse_string', P + 'timex_parsing:TimexParsing.extract_date_time', P + 'timex_parsing:TimexParsing.extract_duration',
       P + 'timex_regex:TimexRegex.extract', P + 'timex_regex:TimexRegex.try_extract', P + 'timex:Timex.assign_properties',
       P + 'timex:Timex.assign_date_duration', P + 'timex:Timex.assign_time_duration', P + 'timex_inference:TimexInference.infer',
       P + 'timex_format:TimexFormat.format', P + 'timex_format:TimexFormat.format_date', P + 'timex_format:TimexFormat.format_date_range',
       P + 'timex_format:TimexFormat.format_time', P + 'timex_format:TimexFormat.format_time_range', P + 'timex_format:TimexFormat.format_duration']


def _enum_choices(patterns):
    """all combinations of enum alternatives of a list of real patterns"""
    from harness import digits
    import itertools
    counts = []
    for p in patterns:
        for t in digits.template(p) or []:
            if isinstance(t, tuple) and t[0] == 'enum':
                counts.append(len(t[2]))
    return [list(c) for c in itertools.product(*[range(n) for n in counts])]


def _example(pattern):
    """a member of a TimexRegex date pattern (digits 1, first enum alternative), used only to ask TimexInference for its type"""
    from harness import digits
    out = ''
    for t in digits.template(pattern):
        if isinstance(t, str):
            out += t
        elif t[0] == 'num':
            out += '1'.rjust(t[2], '0')
        elif t[0] == 'enum':
            out += t[2][0]
    return out


def obligations(tier):
    from datatypes_timex_expression import Timex
    from datatypes_timex_expression.timex_regex import TimexRegex
    rx = TimexRegex.timexRegex
    t = 90 if tier == 'quick' else 400
    slices = []
    for di, r in enumerate(rx['date']):
        for en in _enum_choices([r.pattern]):
            slices.append({'kind': 'date', 'di': di, 'enums': en})
    for ti, r in enumerate(rx['time']):
        for en in _enum_choices([r.pattern]):
            slices.append({'kind': 'time', 'ti': ti, 'enums': en})
    # date + time combinations: the patterns that denote a DATE (TimexInference gives them the type 'date' and no 'daterange')
    # go through the full round trip; a date-RANGE pattern followed by a T part is the region of known finding F19
    rslices = []
    for di in range(len(rx['date'])):
        is_range = 'daterange' in Timex(_example(rx['date'][di].pattern)).types
        for ti, r in enumerate(rx['time']):
            for en in _enum_choices([rx['date'][di].pattern, r.pattern]):
                (rslices if is_range else slices).append({'kind': 'datetime', 'di': di, 'ti': ti, 'enums': en})
    if tier == 'quick':
        rslices = [x for x in rslices if not any(x['enums'])]
    shapes = [[1, 0], [2, 0], [3, 0], [1, 1], [1, 2], [0, 1], [0, 2], [2, 1]] if tier == 'thorough' else [[1, 0], [3, 0], [1, 2], [0, 1]]
    for pi, r in enumerate(rx['period']):
        for en in _enum_choices([r.pattern]):
            for sh in shapes:
                slices.append({'kind': 'period', 'pi': pi, 'enums': en, 'amt': sh})
    obs = [Ob('O14.2-roundtrip', 'xh', 'harness.C14:h_roundtrip', twin='harness.C14:t_roundtrip', slices=slices, timeout=t,
              descr='parse -> fields; format -> parse -> same 20 fields; format idempotent; canonical input returned identically',
              bounds='one slice per TimexRegex pattern x enum alternative (quick: date x time combinations for the first 3 date patterns; '
                     'duration amounts with <=3 integer and <=2 fraction digits); all number fields symbolic over their calendar range',
              encodes=ENC, stubs=['fixed_format_number -> placeholder stub (real one: O14.0)', 'int() of a group -> registry lookup',
                                  'decimal.Decimal -> text-preserving Amt stub'])]
    obs.append(Ob('O14.5-range+time-kf', 'xh', 'harness.C14:h_roundtrip', slices=rslices, timeout=t, finding='F19',
                  descr='region of known finding F19: a date-range TIMEX followed by a T part does not survive format',
                  bounds='every date-range pattern x every time pattern (quick: first enum alternative only)', encodes=ENC))
    obs.append(Ob('O14.5-range+time', 'xh', 'harness.C14:h_range_time', slices=rslices, timeout=t,
                  descr='inside the F19 region: every group is parsed into its field, format keeps the date-range part exactly and is idempotent; '
                        'only the T part (for week-of-month-weekday + part of day: month and week of month) is lost',
                  bounds='as O14.5-range+time-kf', encodes=ENC))
    zs = []
    for pi, r in enumerate(rx['period']):
        for en in _enum_choices([r.pattern]):
            zs.append({'kind': 'period', 'pi': pi, 'enums': en, 'amt': [1, 0]})
    obs.append(Ob('O14.3-zero-amount', 'xh', 'harness.C14:h_zero_amount', slices=zs, timeout=t, finding='F7b',
                  descr='region of the repaired finding F7b (a zero duration amount formatted to the empty string): a reappearance is a violation', bounds='amount 0', encodes=ENC[-1:]))
    obs.append(Ob('O14.2-present', 'xh', 'harness.C14:h_present', timeout=t, descr='PRESENT_REF round trip', encodes=ENC[:1]))
    obs.append(Ob('O14.4-from', 'xh', 'harness.C14:h_from_date_time', timeout=t,
                  descr='Timex.from_date/from_date_time/from_time produce the canonical TIMEX of the value',
                  bounds='datetimes 0001..9999, day <= 28 (datetime validity of days 29..31 is not the subject), all h:m:s',
                  encodes=[P + 'timex:Timex.from_date', P + 'timex:Timex.from_date_time', P + 'timex:Timex.from_time']))
    obs.append(Ob('O14.0-format', 'xh', 'harness.C14:h_fixed_format', timeout=t,
                  descr='the real fixed_format_number renders exactly `size` digits denoting n', bounds='0 <= n < 10^size, size 1..4',
                  encodes=[P + 'timex_date_helpers:TimexDateHelpers.fixed_format_number']))
    return obs
