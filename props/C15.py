from lib.driver import Ob

LEVEL = 'model_checking'
EXPLANATION = ('Bounded symbolic checking of the real TimexResolver / TimexValue / TimexDateHelpers code: CrossHair executes the '
               'functions on symbolic ints/datetimes and z3 decides every path; oracles are integer calendar arithmetic written '
               'independently of datetime.')
ASSUMPTIONS = ['Timex objects are built from fields (Timex(year=..)), the string->field step is covered by C14',
               'reference dates 1950..2090; years 1..9998 for year/month ranges']
OUTSIDE = ['TIMEX strings that the datatype regexes parse into other field combinations than the ones listed',
           'range resolver: month-day / time / duration candidates, several constraints, time-range constraints (only the single date range + weekday clause is built)']

R = 'datatypes_timex_expression.timex_resolver:TimexResolver.'


def obligations(tier):
    obs = []
    t = 60 if tier == 'quick' else 300
    months = list(range(1, 13))
    obs.append(Ob('O15.1-weekday', 'sx', 'harness.C15:h_weekday', twin='harness.C15:t_weekday',
                  slices=[{'m': m, 'dow': d} for m in (months if tier == 'thorough' else (1, 2, 3, 12)) for d in range(1, 8)] +
                         [{'m': 2, 'dow': d, 'feb29': 1} for d in range(1, 8)],
                  timeout=t, descr='weekday TIMEX resolves to that weekday immediately before/after the reference',
                  bounds='reference year 1950..2090, every day of the slice month; one slice per (month, weekday); quick: months 1,2,3,12',
                  encodes=[R + 'resolve_timex', R + 'resolve_date', R + 'last_date_value', R + 'next_date_value',
                           'datatypes_timex_expression.timex_date_helpers:TimexDateHelpers.date_of_last_day',
                           'datatypes_timex_expression.timex_date_helpers:TimexDateHelpers.date_of_next_day',
                           'datatypes_timex_expression.timex_value:TimexValue.date_value',
                           'datatypes_timex_expression.timex_inference:TimexInference.infer']))
    obs.append(Ob('O15.1-helpers', 'sx', 'harness.C15:h_day_helpers', slices=[{'m': m} for m in months], timeout=t,
                  descr='date_of_last_day/date_of_next_day: right weekday, nearest strictly before/after',
                  bounds='reference 1950..2090, day 0..6 symbolic',
                  encodes=['datatypes_timex_expression.timex_date_helpers:TimexDateHelpers.date_of_last_day',
                           'datatypes_timex_expression.timex_date_helpers:TimexDateHelpers.date_of_next_day']))
    obs.append(Ob('O15.2-duration', 'sx', 'harness.C15:h_duration', twin='harness.C15:t_duration',
                  slices=[{'unit': u} for u in ('years', 'months', 'weeks', 'days', 'hours', 'minutes', 'seconds')], timeout=t,
                  descr='duration TIMEX resolves to amount x unit length in seconds', bounds='amount 1..1000000 (int)',
                  encodes=[R + 'resolve_duration', 'datatypes_timex_expression.timex_value:TimexValue.duration_value']))
    obs.append(Ob('O15.3-month', 'sx', 'harness.C15:h_month_range', twin='harness.C15:t_month_range', timeout=t,
                  descr='YYYY-MM resolves to [first day, first day of next month) incl. December', bounds='year 1..9998, month 1..12',
                  encodes=[R + 'resolve_date_range', R + 'month_date_range']))
    obs.append(Ob('O15.3-openmonth', 'sx', 'harness.C15:h_open_month_range', timeout=t,
                  descr='XXXX-MM resolves to that month in last and this year', bounds='reference year 1950..2090',
                  encodes=[R + 'resolve_date_range', R + 'month_date_range']))
    obs.append(Ob('O15.3-year', 'sx', 'harness.C15:h_year_range', timeout=t, descr='YYYY resolves to [Jan 1, next Jan 1)',
                  bounds='year 1..9998', encodes=[R + 'year_date_range']))
    obs.append(Ob('O15.4-week', 'sx', 'harness.C15:h_week_range', twin='harness.C15:t_week_range', timeout=t,
                  slices=[{'_': 0}], descr='YYYY-Www resolves to [Monday of ISO week, +7 days), well formed',
                  bounds='year 1950..2090, week 1..52', encodes=[R + 'week_date_range']))
    obs.append(Ob('O15.0-format', 'xh', 'harness.C15:h_fixed_format', timeout=t,
                  descr='the real fixed_format_number renders n as exactly `size` decimal digits (the other obligations stub it by markers)',
                  bounds='0 <= n < 10^size, size 1..4',
                  encodes=['datatypes_timex_expression.timex_date_helpers:TimexDateHelpers.fixed_format_number']))
    rs = [{'ndays': 7, 'wd': 7}, {'ndays': 10, 'wd': 3}] if tier == 'quick' else [{'ndays': n, 'wd': w} for n in (7, 14, 21) for w in range(1, 8)]
    obs.append(Ob('O15.5-weekday-in-range', 'sx', 'harness.C15r:h_weekday_in_range', twin='harness.C15r:t_weekday_in_range', slices=rs, timeout=max(t, 240),
                  descr='TimexRangeResolver.evaluate, one date-range constraint + weekday candidate: only definite instances inside the range, and every such day',
                  bounds='range start = every day 1951..2089 (symbolic day number, written into the constraint string as digit placeholders); length 7/10 days (thorough 7/14/21); weekday per slice',
                  encodes=['datatypes_timex_expression.timex_range_resolver:TimexRangeResolver.evaluate',
                           'datatypes_timex_expression.timex_range_resolver:TimexRangeResolver.resolve_by_date_range_constraints',
                           'datatypes_timex_expression.timex_range_resolver:TimexRangeResolver.resolve_date_against_constraint',
                           'datatypes_timex_expression.timex_date_helpers:TimexDateHelpers.dates_matching_day',
                           'datatypes_timex_expression.timex_helpers:TimexHelpers.expand_datetime_range',
                           'datatypes_timex_expression.timex_helpers:TimexHelpers.timex_date_add',
                           'datatypes_timex_expression.timex_constraints_helper:TimexConstraintsHelper.collapse'],
                  engine='symx symbolic execution (lib/symx.py + lib/symdate.py), z3 per branch'))
    return obs
