from lib.driver import Ob

LEVEL = 'model_checking'
EXPLANATION = ('Bounded symbolic checking of the real TimexResolver / TimexValue / TimexDateHelpers / TimexRangeResolver / TimexConstraintsHelper code: symx executes the '
               'functions on symbolic ints, a symbolic calendar and TIMEX strings whose number fields are digit placeholders; z3 decides every branch; oracles are integer calendar '
               'arithmetic written independently of datetime. Constraint collapse is checked as one inductive step on ranges with symbolic endpoints under a termination monitor.')
ASSUMPTIONS = ['Timex objects are built from fields (Timex(year=..)), the string->field step is covered by C14',
               'reference dates 1950..2090; years 1..9998 for year/month ranges']
OUTSIDE = ['TIMEX strings that the datatype regexes parse into other field combinations than the ones listed',
           'range resolver: duration candidates and time-range candidates (no oracle in the statement / recorded observations); an end-to-end run with several symbolic dates in the constraint strings (replaced by the collapse step + single-range evaluate)']

R = 'datatypes_timex_expression.timex_resolver:TimexResolver.'


def obligations(tier):
    obs = []
    t = 60 if tier == 'quick' else 300
    months = list(range(1, 13))
    obs.append(Ob('O15.1-weekday', 'sx', 'harness.C15:h_weekday', twin='harness.C15:t_weekday',
                  slices=[{'m': m, 'dow': d} for m in (months if tier == 'thorough' else (1, 2, 3, 12)) for d in range(1, 8)] +
                         [{'m': 2, 'dow': d, 'feb29': 1} for d in range(1, 8)],
                  timeout=t, descr='weekday TIMEX resolves to that weekday immediately before/after the reference',
                  bounds='reference year 1950..2090, every day of the slice month; one slice per (month, weekday); quick: months 1,2,3,12',
                  encodes=[R + 'resolve_timex', R + 'resolve_date', R + 'last_date_value', R + 'next_date_value',
                           'datatypes_timex_expression.timex_date_helpers:TimexDateHelpers.date_of_last_day',
                           'datatypes_timex_expression.timex_date_helpers:TimexDateHelpers.date_of_next_day',
                           'datatypes_timex_expression.timex_value:TimexValue.date_value',
                           'datatypes_timex_expression.timex_inference:TimexInference.infer']))
    obs.append(Ob('O15.1-helpers', 'sx', 'harness.C15:h_day_helpers', slices=[{'m': m} for m in months], timeout=t,
                  descr='date_of_last_day/date_of_next_day: right weekday, nearest strictly before/after',
                  bounds='reference 1950..2090, day 0..6 symbolic',
                  encodes=['datatypes_timex_expression.timex_date_helpers:TimexDateHelpers.date_of_last_day',
                           'datatypes_timex_expression.timex_date_helpers:TimexDateHelpers.date_of_next_day']))
    obs.append(Ob('O15.2-duration', 'sx', 'harness.C15:h_duration', twin='harness.C15:t_duration',
                  slices=[{'unit': u} for u in ('years', 'months', 'weeks', 'days', 'hours', 'minutes', 'seconds')], timeout=t,
                  descr='duration TIMEX resolves to amount x unit length in seconds', bounds='amount 1..1000000 (int)',
                  encodes=[R + 'resolve_duration', 'datatypes_timex_expression.timex_value:TimexValue.duration_value']))
    obs.append(Ob('O15.3-month', 'sx', 'harness.C15:h_month_range', twin='harness.C15:t_month_range', timeout=t,
                  descr='YYYY-MM resolves to [first day, first day of next month) incl. December', bounds='year 1..9998, month 1..12',
                  encodes=[R + 'resolve_date_range', R + 'month_date_range']))
    obs.append(Ob('O15.3-openmonth', 'sx', 'harness.C15:h_open_month_range', timeout=t,
                  descr='XXXX-MM resolves to that month in last and this year', bounds='reference year 1950..2090',
                  encodes=[R + 'resolve_date_range', R + 'month_date_range']))
    obs.append(Ob('O15.3-year', 'sx', 'harness.C15:h_year_range', timeout=t, descr='YYYY resolves to [Jan 1, next Jan 1)',
                  bounds='year 1..9998', encodes=[R + 'year_date_range']))
    obs.append(Ob('O15.4-week', 'sx', 'harness.C15:h_week_range', twin='harness.C15:t_week_range', timeout=t,
                  slices=[{'_': 0}], descr='YYYY-Www resolves to [Monday of ISO week, +7 days), well formed',
                  bounds='year 1950..2090, week 1..52', encodes=[R + 'week_date_range']))
    obs.append(Ob('O15.0-format', 'xh', 'harness.C15:h_fixed_format', timeout=t,
                  descr='the real fixed_format_number renders n as exactly `size` decimal digits (the other obligations stub it by markers)',
                  bounds='0 <= n < 10^size, size 1..4',
                  encodes=['datatypes_timex_expression.timex_date_helpers:TimexDateHelpers.fixed_format_number']))
    rs = [{'ndays': 7, 'wd': 7}, {'ndays': 10, 'wd': 3}] if tier == 'quick' else [{'ndays': n, 'wd': w} for n in (7, 14, 21) for w in range(1, 8)]
    obs.append(Ob('O15.5-weekday-in-range', 'sx', 'harness.C15r:h_weekday_in_range', twin='harness.C15r:t_weekday_in_range', slices=rs, timeout=max(t, 240),
                  descr='TimexRangeResolver.evaluate, one date-range constraint + weekday candidate: only definite instances inside the range, and every such day',
                  bounds='range start = every day 1951..2089 (symbolic day number, written into the constraint string as digit placeholders); length 7/10 days (thorough 7/14/21); weekday per slice',
                  encodes=['datatypes_timex_expression.timex_range_resolver:TimexRangeResolver.evaluate',
                           'datatypes_timex_expression.timex_range_resolver:TimexRangeResolver.resolve_by_date_range_constraints',
                           'datatypes_timex_expression.timex_range_resolver:TimexRangeResolver.resolve_date_against_constraint',
                           'datatypes_timex_expression.timex_date_helpers:TimexDateHelpers.dates_matching_day',
                           'datatypes_timex_expression.timex_helpers:TimexHelpers.expand_datetime_range',
                           'datatypes_timex_expression.timex_helpers:TimexHelpers.timex_date_add',
                           'datatypes_timex_expression.timex_constraints_helper:TimexConstraintsHelper.collapse'],
                  engine='symx symbolic execution (lib/symx.py + lib/symdate.py), z3 per branch'))
    X = 'datatypes_timex_expression.'
    nrs = [3, 2, 1] if tier == 'quick' else [3, 2, 1, 4]
    obs.append(Ob('O15.6-collapse-dates', 'sx', 'harness.C15r:h_collapse_dates', twin='harness.C15r:t_collapse_dates', slices=[{'nr': n} for n in nrs], timeout=max(t, 240),
                  descr='TimexConstraintsHelper.collapse + DateRange on 1..3 (thorough 4) ranges with symbolic endpoints: terminates (variant monitor: a pass that reports '
                        'a collapse shortens the list), returns >= 1 range, every returned range lies inside one supplied range, sorted; one range comes back unchanged',
                  bounds='range starts 0..800 and lengths 1..400 as symbolic day numbers (the code only compares endpoints and takes max/min); any order, any overlap pattern',
                  encodes=[X + 'timex_constraints_helper:TimexConstraintsHelper.collapse', X + 'timex_constraints_helper:TimexConstraintsHelper.inner_collapse',
                           X + 'date_range:DateRange.is_overlapping', X + 'date_range:DateRange.collapse_overlapping', X + 'date_range:DateRange.sort_range'],
                  stubs=['inner_collapse wrapped by a termination monitor (calls the real one)', 'range endpoints are ints instead of dates']))
    obs.append(Ob('O15.6-collapse-times', 'sx', 'harness.C15r:h_collapse_times', slices=[{'nr': n} for n in (3, 2)], timeout=max(t, 240),
                  descr='the same for TimeRange/Time (start h:m:s symbolic, length 1 s..10 h): every collapsed range lies inside one supplied range',
                  bounds='2..3 time ranges; Time.from_seconds float division modelled as an exact quotient (symx.SymQuot, validated by the engine self-test)',
                  encodes=[X + 'time_range:TimeRange.is_overlapping', X + 'time_range:TimeRange.collapse_overlapping', X + 'time:Time.from_seconds', X + 'time:Time.get_time',
                           X + 'timex_constraints_helper:TimexConstraintsHelper.collapse']))
    tcs = [[['r', 'H', 2]], [['r', 'M', 30]], [['r', 'S', 45]], [['p', 'AF']], [['r', 'H', 2], ['p', 'AF']], [['r', 'H', 3], ['r', 'M', 90]], [['p', 'NI'], ['p', 'EV']]]
    if tier == 'thorough':
        tcs += [[['p', x]] for x in ('DT', 'MO', 'EV', 'NI')] + [[['r', 'M', 45], ['r', 'S', 3000]], [['p', 'DT'], ['r', 'H', 5]], [['r', 'H', 1], ['r', 'H', 6]]]
    tsl = [{'tcons': c, 'tfields': f} for c in tcs for f in ((2, 3) if tier == 'quick' else (1, 2, 3))]
    obs.append(Ob('O15.7-time-constraints', 'sx', 'harness.C15r:h_time_constraints', twin='harness.C15r:t_time_constraints', slices=tsl, timeout=max(t, 240),
                  descr='TimexRangeResolver.evaluate, a time candidate and 1..2 time-range constraints (explicit ranges with hour/minute/second durations, parts of day): '
                        'it returns; a result is the candidate itself and lies inside at least one supplied time range',
                  bounds='candidate every h:m[:s]; explicit range start every h:m with h <= 19; durations and parts of day per slice',
                  encodes=[X + 'timex_range_resolver:TimexRangeResolver.resolve_by_timerange_constraints', X + 'timex_range_resolver:TimexRangeResolver.resolve_time_against_constraint',
                           X + 'timex_helpers:TimexHelpers.expand_time_range', X + 'timex_helpers:TimexHelpers.add_time', X + 'timex_helpers:TimexHelpers.timerange_from_timex']))
    mds = [{'mdcon': 'year'}, {'mdcon': 'month'}, {'mdcon': 'days', 'ndays': 45}, {'mdcon': 'days', 'ndays': 400}, {'mdcon': 'twomonths'}]
    if tier == 'thorough':
        mds += [{'mdcon': 'days', 'ndays': n} for n in (1, 28, 366, 731)]
    obs.append(Ob('O15.8-monthday-in-range', 'sx', 'harness.C15r:h_monthday_in_range', twin='harness.C15r:t_monthday_in_range', slices=mds, timeout=max(t, 240),
                  descr='TimexRangeResolver.evaluate, a month-day candidate (every calendar month-day incl. 29 February) and one date-range constraint (a year, a year-month incl. '
                        'December, an explicit range; two year-month constraints three months apart): it returns; results are definite, have that month and day, lie inside one of the supplied ranges',
                  bounds='constraint anchored at every day 1951..2087; explicit lengths 45/400 days (thorough also 1/28/366/731)',
                  encodes=[X + 'timex_range_resolver:TimexRangeResolver.resolve_date_against_constraint', X + 'timex_range_resolver:TimexRangeResolver.resolve_definite_against_constraint',
                           X + 'timex_helpers:TimexHelpers.expand_datetime_range', X + 'timex_helpers:TimexHelpers.daterange_from_timex', X + 'timex_helpers:TimexHelpers.date_from_timex']))
    wts = [{'ndays': 7, 'wd': 2}] if tier == 'quick' else [{'ndays': n, 'wd': w} for n in (7, 14) for w in (1, 4, 7)]
    obs.append(Ob('O15.9-weekday-with-time', 'sx', 'harness.C15r:h_weekday_time', twin='harness.C15r:t_weekday_time', slices=wts, timeout=max(t, 240),
                  descr='weekday candidate + one date range + a time constraint: every instance is a day of the range on that weekday carrying exactly that time',
                  bounds='range start every day 1951..2089, time every h:m', encodes=[X + 'timex_range_resolver:TimexRangeResolver.resolve_by_time_constraints']))
    return obs
