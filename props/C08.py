from lib.driver import Ob

LEVEL = 'model_checking'
EXPLANATION = ('API-level symbolic execution: the query text is concrete (one slice per expression), so every real extractor/parser regex runs '
               'natively on it, while the reference datetime is symbolic (symx proxies + lib/symdate.py calendar model); z3 decides every branch, so '
               'each discharged slice holds for every reference datetime 1950-01-01..2090-12-31 at every minute of the day. The amount N of '
               '"N days/weeks ago|from now" is additionally symbolic (1..5000) at unit level (AgoLaterUtil.get_date_result).')
ASSUMPTIONS = ['calendar model lib/symdate.py (validated against datetime on 3000 concrete instants per run)',
               'datedelta environment stub (month/year shifts): obligations that can reach a non-existent target day run under both policies',
               'DateTimeModel.parse is mirrored without its `except Exception: pass`', 'datetime.now() returns an arbitrary instant',
               'English culture']
OUTSIDE = ['cultures other than English', 'month/year shifts from the 29th..31st where the two datedelta policies disagree (ENV-DEPENDENT)',
           'amounts N written in the text other than the listed ones at API level (N is symbolic only at unit level)']
B = 'recognizers_date_time.date_time.'
ENC = [B + 'models:DateTimeModel.parse', B + 'base_merged:BaseMergedExtractor.extract', B + 'base_merged:BaseMergedParser.parse',
       B + 'base_date:BaseDateParser.parse_implicit_date', B + 'base_date:BaseDateParser.parser_duration_with_ago_and_later',
       B + 'utilities:AgoLaterUtil.get_date_result', B + 'utilities:DateUtils.this', B + 'utilities:DateUtils.next', B + 'utilities:DateUtils.last',
       B + 'base_dateperiod:BaseDatePeriodParser._parse_one_word_period', B + 'utilities:DateTimeFormatUtil.luis_date_from_datetime',
       B + 'english.date_parser_config:EnglishDateParserConfiguration.get_swift_day',
       B + 'english.dateperiod_parser_config:EnglishDatePeriodParserConfiguration.get_swift_day_or_month']
DAYS = ['monday', 'tuesday', 'wednesday', 'thursday', 'friday', 'saturday', 'sunday']


def obligations(tier):
    t = 150 if tier == 'quick' else 900
    day = [('today', 0), ('tomorrow', 1), ('yesterday', -1), ('the day after tomorrow', 2), ('the day before yesterday', -2)]
    ns = [1, 3, 30, 5000] if tier == 'quick' else [1, 2, 3, 7, 10, 30, 99, 365, 400, 1000, 4999, 5000]
    for n in ns:
        u = 'day' if n == 1 else 'days'
        day += [('%d %s ago' % (n, u), -n), ('in %d %s' % (n, u), n), ('%d %s from now' % (n, u), n)]
    for n in (ns if tier == 'thorough' else [1, 2, 500]):
        u = 'week' if n == 1 else 'weeks'
        day += [('%d %s ago' % (n, u), -7 * n), ('in %d %s' % (n, u), 7 * n), ('%d %s from now' % (n, u), 7 * n)]
    if tier == 'thorough':
        day += [('two days ago', -2), ('in three weeks', 21)]
    obs = [Ob('O8.1-relative-day', 'sx', 'harness.apidt:h_relative_day', twin='harness.apidt:t_relative_day',
              slices=[{'q': q, 'shift': s} for q, s in day], timeout=t,
              descr="today/tomorrow/yesterday/N days|weeks ago/in N days|weeks/N days from now -> R's date + shift, TIMEX = that date",
              bounds='every reference 1950-01-01..2090-12-31 x every minute of the day; one slice per expression', encodes=ENC)]
    wk = [{'q': '%s %s' % (w, DAYS[d - 1]), 'shift': s, 'wd': d} for w, s in (('next', 1), ('this', 0), ('last', -1)) for d in range(1, 8)]
    obs.append(Ob('O8.4-relative-weekday', 'sx', 'harness.apidt:h_relative_weekday', slices=wk, timeout=t,
                  descr='next/this/last <weekday> -> that weekday of the following/current/preceding ISO week',
                  bounds='every reference 1950..2090 x minute of day; 21 expressions', encodes=ENC))
    obs.append(Ob('O8.5-week', 'sx', 'harness.apidt:h_week', slices=[{'q': '%s week' % w, 'shift': s} for w, s in (('this', 0), ('next', 1), ('last', -1))],
                  timeout=t, descr='this/next/last week -> [Monday, next Monday) of the ISO week, TIMEX ISO-year-Www',
                  bounds='every reference 1950..2090 x minute of day', encodes=ENC))
    obs.append(Ob('O8.5-month', 'sx', 'harness.apidt:h_month', both_policies=True,
                  slices=[{'q': '%s month' % w, 'shift': s, 'late': l} for w, s in (('this', 0), ('next', 1), ('last', -1)) for l in (0, 1)],
                  timeout=t, descr='this/next/last month -> [first day, first day of next month), TIMEX YYYY-MM',
                  bounds='reference year 1950..2090, any month, day 1..28 (late=1: up to the 31st, both datedelta policies)', encodes=ENC))
    obs.append(Ob('O8.5-year', 'sx', 'harness.apidt:h_year', both_policies=True,
                  slices=[{'q': '%s year' % w, 'shift': s} for w, s in (('this', 0), ('next', 1), ('last', -1))],
                  timeout=t, descr='this/next/last year -> [Jan 1, next Jan 1), TIMEX YYYY', bounds='reference 1950..2090, day 1..28', encodes=ENC))
    obs.append(Ob('O8.6-now', 'sx', 'harness.apidt:h_now', slices=[{'q': q} for q in ('now', 'right now')], timeout=t,
                  descr='now -> the reference instant itself, PRESENT_REF', bounds='every reference 1950..2090 x minute of day', encodes=ENC))
    obs.append(Ob('O8.2-ago-later-N', 'sx', 'harness.apidt:h_ago_later', slices=[{'unit': u} for u in ('D', 'W')], timeout=t,
                  descr='get_date_result: R -/+ N days or 7N days for symbolic N', bounds='N 1..5000, every reference 1950..2090, both directions',
                  encodes=[B + 'utilities:AgoLaterUtil.get_date_result']))
    two = [('3 days ago and 2 weeks ago', -3, -14), ('in 3 days or in 2 weeks', 3, 14), ('tomorrow and 5 days from now', 1, 5), ('yesterday or 2 days ago', -1, -2)]
    if tier == 'thorough':
        two += [('i left 3 weeks ago for 2 days', -21, None)][:0] + [('2 days ago, 3 days ago', -2, -3), ('in 2 weeks and in 30 days', 14, 30), ('5000 days ago or in 5000 days', -5000, 5000)]
    obs.append(Ob('O8.8-two-expressions', 'sx', 'harness.apidt:h_relative_two', slices=[{'q': q, 'shift': a_, 'shift2': b_} for q, a_, b_ in two], timeout=t,
                  descr='two relative day expressions in one query: two date entities in text order, each R\'s date + its own shift (the extractor collects the relative-duration tokens of ALL durations of the query)',
                  bounds='every reference minute 1950..2090; one slice per query', encodes=ENC[:3] + [B + 'base_date:BaseDateExtractor.relative_duration_date']))
    import json as _json
    import os as _os
    ph = _json.load(open(_os.path.join(_os.path.dirname(_os.path.dirname(_os.path.abspath(__file__))), 'harness', 'c08_phrases.json'), encoding='utf-8'))
    pick = (lambda lst: lst[:5]) if tier == 'quick' else (lambda lst: lst)
    obs.append(Ob('O8.7-relative-day-cultures', 'sx', 'harness.apidt:h_relative_day', slices=[{'q': q, 'shift': s, 'culture': c} for c in sorted(ph['day']) for q, s in pick(ph['day'][c])], timeout=t,
                  descr='the relative day expressions of es, fr, pt, de, it, nl, zh that the port supports (hoy / demain / übermorgen / 3 dagen geleden / 大后天 ...): R\'s date + shift, TIMEX = that date, for EVERY reference',
                  bounds='every reference minute 1950..2090; phrases of harness/c08_phrases.json (quick: 4 per culture)', encodes=ENC[:3]))
    obs.append(Ob('O8.7-week-cultures', 'sx', 'harness.apidt:h_week', slices=[{'q': q, 'shift': s, 'culture': c} for c in sorted(ph['week']) for q, s in pick(ph['week'][c])], timeout=t,
                  descr='this / next / last week in es, fr, pt, de, it, nl, zh (supported phrases): [Monday, next Monday) of the shifted ISO week, TIMEX ISO-year-Www, for EVERY reference',
                  bounds='every reference minute 1950..2090', encodes=ENC[:3]))
    obs.append(Ob('O8.7-month-cultures', 'sx', 'harness.apidt:h_month', both_policies=True, slices=[{'q': q, 'shift': s, 'late': 0, 'culture': c} for c in sorted(ph['month']) for q, s in pick(ph['month'][c])], timeout=t,
                  descr='this / next / last month in the other cultures (supported phrases): [first day, first day of the next month), TIMEX YYYY-MM', bounds='reference year 1950..2090, any month, day 1..28', encodes=ENC[:3]))
    obs.append(Ob('O8.7-year-cultures', 'sx', 'harness.apidt:h_year', both_policies=True, slices=[{'q': q, 'shift': s, 'culture': c} for c in sorted(ph['year']) for q, s in pick(ph['year'][c])], timeout=t,
                  descr='this / next / last year in the other cultures (supported phrases): [Jan 1, next Jan 1), TIMEX YYYY', bounds='reference 1950..2090, day 1..28', encodes=ENC[:3]))
    obs.append(Ob('O8.7-witness-no-timex', 'fn', 'harness.witness:api_witness', slices=[{'w': 'F61'}], timeout=t, finding='F61', descr='API witnesses of the repaired F61 (period phrase resolved as the current month without a TIMEX): a reappearance is a violation'))
    ZD = 'recognizers_date_time.date_time.chinese.date_parser:ChineseDateParser.'
    obs.append(Ob('O8.6-chinese-special-day', 'sx', 'harness.dateparse_zh:h_zh_special', slices=[{'word': w} for w in ('今天', '明天', '后天', '大后天', '昨天', '前天', '大前天', '明日', '昨日')], timeout=t,
                  descr='Chinese special days (今天 明天 后天 大后天 昨天 前天 大前天 ...) through the real ChineseDateParser.parse_implicit_date and get_swift_day: value = TIMEX = reference date + k days for every reference',
                  bounds='reference every minute 1950..2090; one slice per word (shift from an independent table)',
                  encodes=[ZD + 'parse_implicit_date', 'recognizers_date_time.date_time.chinese.date_parser_config:ChineseDateParserConfiguration.get_swift_day'],
                  stubs=['FakeRegex/FakeMatch: the special-day pattern matches the word as the whole text']))
    return obs
