from lib.driver import Ob

LEVEL = 'model_checking'
EXPLANATION = ('The real BaseDateParser.parse -> parse_basic_regex_match -> match_to_date -> DateUtils.generate_dates -> DateTimeFormatUtil and the '
               'BaseMergedParser resolution builder are executed symbolically (symx: native execution on z3-backed proxies, lib/symx.py + lib/symdate.py) on a symbolic year (as digit placeholder text), symbolic day, '
               'symbolic reference datetime; the regex layer is a stub in which exactly one date pattern matches with year/month/day groups.')
ASSUMPTIONS = ['regex match stubbed (FakeRegex/FakeMatch): which layouts the DateExtractor patterns accept is not decided here',
               'month/day name tables replaced by one-entry tables {"M": m}, {"D": d}; the real tables are audited in O6.5',
               'datedelta is not reached on this path']
OUTSIDE = ['which pattern of the list wins and how its groups decompose a string (the language layer O6.1 shows a full match exists; decomposition is only validated on solver-generated members)', 'two-digit years', 'Dutch, Chinese, Japanese date patterns']
B = 'recognizers_date_time.date_time.'
ENC = [B + 'base_date:BaseDateParser.parse', B + 'base_date:BaseDateParser.parse_basic_regex_match', B + 'base_date:BaseDateParser.match_to_date',
       B + 'utilities:DateUtils.generate_dates', B + 'utilities:DateUtils.safe_create_from_value', B + 'utilities:DateUtils.is_valid_date',
       B + 'utilities:DateTimeFormatUtil.luis_date', B + 'utilities:DateTimeFormatUtil.format_date',
       B + 'base_merged:BaseMergedParser.parse', B + 'base_merged:BaseMergedParser._date_time_resolution',
       B + 'base_merged:BaseMergedParser._generate_from_resolution']


def obligations(tier):
    t = 120 if tier == 'quick' else 600
    sl = [{'mode': 'full', 'm': m, 'tod': 1} for m in range(1, 13)]
    obs = [Ob('O6.2-full-date', 'sx', 'harness.dateparse:h_full_date', twin='harness.dateparse:t_full_date', slices=sl, timeout=t,
              descr='year/month/day groups -> one date value YYYY-MM-DD = TIMEX, independent of the reference; invalid day -> not resolved',
              bounds='year 1900..2099, day 1..31, one slice per month; reference 1950..2090 with symbolic time of day',
              encodes=ENC, stubs=['FakeRegex/FakeMatch', 'one-entry month/day tables', 'digit placeholders; int() patched'])]
    obs.append(Ob('O6.5-tables', 'fn', 'harness.tables:audit_date_tables', timeout=t,
                  descr='audit (concrete, not a solver verdict): English month_of_year / day_of_month / day_of_week tables against calendar',
                  encodes=[]))
    obs.append(Ob('O6.5-tables-cultures', 'fn', 'harness.tables:audit_culture_tables', slices=[{'lang': l} for l in ('spanish', 'french', 'portuguese', 'german', 'italian', 'dutch')], timeout=t,
                  descr='audit (concrete, not a solver verdict): MonthOfYear / DayOfMonth / DayOfWeek tables of es, fr, pt, de, it, nl against independent month and weekday name lists',
                  encodes=[]))
    obs.append(Ob('O6.5-keys-through-parser', 'fn', 'harness.datekeys:audit_keys', slices=[{'lang': l} for l in ('english', 'spanish', 'french', 'portuguese', 'german', 'italian', 'dutch')], timeout=max(t, 300),
                  descr='audit through the real code (finite, exhaustive over table keys; not a solver verdict): every month key x day key of the maps each culture\'s parser configuration wires '
                        '(names, abbreviations, numeric and zero-padded forms) goes through the real BaseDateParser with one date pattern made to match, with and without a year; the numeric keys 1..12 / 1..31 and 01..09 must be present',
                  bounds='1 700 .. 8 300 key pairs per culture', encodes=[B + 'base_date:BaseDateParser.match_to_date', B + 'base_date:BaseDateParser.parse_basic_regex_match']))
    L = 'harness.layouts:'
    dl = [{'kind': 'date', 'culture': 'en-us', 'layout': l} for l in ('iso', 'slash', 'dash', 'month-d-y', 'month-dth-y', 'd-month-y', 'dth-of-month-y')]
    dl += [{'kind': 'date', 'culture': c, 'layout': l} for c in ('es-es', 'fr-fr', 'pt-br', 'de-de', 'it-it') for l in ('iso', 'slash', 'dash', 'd-month-y')]
    obs.append(Ob('O6.1-language', 'fn', L + 'inclusion', slices=dl, timeout=t,
                  descr='every date of a supported layout (ISO, numeric with slashes/dashes in the culture\'s day/month order, month name + day [+ ordinal suffix] + year) is fully matched by one of the date patterns',
                  bounds='years 1900..2099, months 1..12, days 1..31, unbounded over the layout language; English 7 layouts, es/fr/pt/de/it numeric layouts (Dutch patterns are not parseable by the translator)',
                  engine='z3 regular-expression solver on an over-approximating translation of the real pattern sources (assertions dropped)',
                  encodes=['recognizers_date_time.date_time.english.date_extractor_config:EnglishDateExtractorConfiguration.__init__']))
    obs.append(Ob('O6.1-api-members', 'fn', L + 'api_members', slices=[dict(x, n=12 if tier == 'quick' else 80) for x in dl], timeout=t,
                  descr='composition check: solver-generated dates of each layout resolve through recognize_datetime to exactly that date (value = TIMEX)',
                  bounds='12 (thorough 80) z3 models per (culture, layout); validation of the composition, not a universal verdict'))
    ZD = 'recognizers_date_time.date_time.chinese.date_parser:ChineseDateParser.'
    obs.append(Ob('O6.6-chinese-full-date', 'sx', 'harness.dateparse_zh:h_zh_full', twin='harness.dateparse_zh:t_zh_full', slices=[{'m': m} for m in range(1, 13)], timeout=t,
                  descr='Chinese: year/month/day groups through the real ChineseDateParser.match_to_date (get_month_of_year / get_day_of_month folding) and the ChineseMergedParser resolution builder -> one date value = TIMEX, independent of the reference; invalid day -> not resolved',
                  bounds='year 1900..2099, day 1..31, one slice per month; reference every minute 1950..2090',
                  encodes=[ZD + 'parse', ZD + 'parse_basic_regex_match', ZD + 'match_to_date', ZD + 'get_day_of_month', ZD + 'get_month_of_year',
                           'recognizers_date_time.date_time.chinese.merged_parser:ChineseMergedParser.parse', 'recognizers_date_time.date_time.chinese.merged_parser:ChineseMergedParser._date_time_resolution'],
                  stubs=['FakeRegex/FakeMatch', 'one-entry month/day tables (real tables audited by O6.6-chinese-tables)', 'digit placeholders; int() patched']))
    obs.append(Ob('O6.6-chinese-tables', 'fn', 'harness.dateparse_zh:audit_zh_tables', timeout=t,
                  descr='audit (concrete, exhaustive over keys; not a solver verdict): every key of the Chinese day / month tables through the real get_day_of_month / get_month_of_year (lunar spellings folded into 1..31 / 1..12), '
                        'numeric and CJK numeral keys present and right, weekday words, special-day words', encodes=[ZD + 'get_day_of_month', ZD + 'get_month_of_year']))
    return obs
