from lib.driver import Ob

LEVEL = 'model_checking'
EXPLANATION = ('The real BaseDateParser.parse -> parse_basic_regex_match -> match_to_date -> DateUtils.generate_dates -> DateTimeFormatUtil and the '
               'BaseMergedParser resolution builder are executed symbolically (symx: native execution on z3-backed proxies, lib/symx.py + lib/symdate.py) on a symbolic year (as digit placeholder text), symbolic day, '
               'symbolic reference datetime; the regex layer is a stub in which exactly one date pattern matches with year/month/day groups.')
ASSUMPTIONS = ['regex match stubbed (FakeRegex/FakeMatch): which layouts the DateExtractor patterns accept is not decided here',
               'month/day name tables replaced by one-entry tables {"M": m}, {"D": d}; the real tables are audited in O6.5',
               'datedelta is not reached on this path']
OUTSIDE = ['regex languages of DateExtractor1..A and their dispatch (class G/L of DESIGN §3)', 'two-digit years', 'non-English cultures']
B = 'recognizers_date_time.date_time.'
ENC = [B + 'base_date:BaseDateParser.parse', B + 'base_date:BaseDateParser.parse_basic_regex_match', B + 'base_date:BaseDateParser.match_to_date',
       B + 'utilities:DateUtils.generate_dates', B + 'utilities:DateUtils.safe_create_from_value', B + 'utilities:DateUtils.is_valid_date',
       B + 'utilities:DateTimeFormatUtil.luis_date', B + 'utilities:DateTimeFormatUtil.format_date',
       B + 'base_merged:BaseMergedParser.parse', B + 'base_merged:BaseMergedParser._date_time_resolution',
       B + 'base_merged:BaseMergedParser._generate_from_resolution']


def obligations(tier):
    t = 120 if tier == 'quick' else 600
    sl = [{'mode': 'full', 'm': m, 'tod': 1} for m in range(1, 13)]
    obs = [Ob('O6.2-full-date', 'sx', 'harness.dateparse:h_full_date', twin='harness.dateparse:t_full_date', slices=sl, timeout=t,
              descr='year/month/day groups -> one date value YYYY-MM-DD = TIMEX, independent of the reference; invalid day -> not resolved',
              bounds='year 1900..2099, day 1..31, one slice per month; reference 1950..2090 with symbolic time of day',
              encodes=ENC, stubs=['FakeRegex/FakeMatch', 'one-entry month/day tables', 'digit placeholders; int() patched'])]
    obs.append(Ob('O6.5-tables', 'fn', 'harness.tables:audit_date_tables', timeout=t,
                  descr='audit (concrete, not a solver verdict): English month_of_year / day_of_month / day_of_week tables against calendar',
                  encodes=[]))
    return obs
