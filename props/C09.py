from lib.driver import Ob

LEVEL = 'model_checking'
EXPLANATION = ('symx (native execution on z3-backed int/date proxies) executes the real date parser (match_to_date + generate_dates for month/day without year, parse_implicit_date weekday '
               'branch for bare weekdays) and the merged parser resolution builder on symbolic reference datetimes; the two emitted candidates '
               'are checked to be the latest occurrence strictly before and the earliest on/after the reference date, in past/future order.')
ASSUMPTIONS = ['regex match stubbed (FakeRegex/FakeMatch)', 'one-entry month/day/weekday tables (real tables audited by C06 O6.5)']
OUTSIDE = ['regex languages of the date patterns', 'reference years outside 1950..2090 (2100 is not a leap year)']
B = 'recognizers_date_time.date_time.'


def obligations(tier):
    t = 150 if tier == 'quick' else 600
    months = range(1, 13)
    obs = [Ob('O9.1-noyear', 'sx', 'harness.dateparse:h_noyear', slices=[{'mode': 'noyear', 'm': m, 'tod': 1} for m in months], timeout=t,
              descr='month+day without year: two candidates (past, future) = neighbouring occurrences around the reference date, open-year TIMEX',
              bounds='day 1..last day of the slice month (29 Feb separately), reference 1950..2090 with symbolic time of day, minus region KF-C09-TOD',
              encodes=[B + 'base_date:BaseDateParser.match_to_date', B + 'utilities:DateUtils.generate_dates', B + 'base_merged:BaseMergedParser._date_time_resolution'])]
    obs.append(Ob('O9.1-noyear-kf', 'sx', 'harness.dateparse:h_noyear_kf', slices=[{'mode': 'noyear', 'm': m, 'tod': 1} for m in (1, 7)], timeout=t,
                  finding='KF-C09-TOD', descr='region of known finding KF-C09-TOD', encodes=[B + 'utilities:DateUtils.generate_dates']))
    obs.append(Ob('O9.1-feb29', 'sx', 'harness.dateparse:h_feb29', slices=[{'mode': 'noyear', 'm': 2}], timeout=t,
                  descr='29 February without year: the neighbouring leap days', bounds='reference 1950..2090 (midnight)',
                  encodes=[B + 'utilities:DateUtils.generate_dates']))
    wds = [{'mode': 'weekday', 'wd': w, 'tod': 1} for w in range(1, 8)]
    obs.append(Ob('O9.2-weekday', 'sx', 'harness.dateparse:s_bare_weekday', twin='harness.dateparse:t_weekday', slices=wds, timeout=t,
                  descr='bare weekday: candidates exactly 7 days apart around the reference date, TIMEX XXXX-WXX-d, past first',
                  bounds='reference = every day number 1950-01-01..2090-12-31 with symbolic time of day; one slice per weekday',
                  encodes=[B + 'base_date:BaseDateParser.parse_implicit_date', B + 'utilities:DateUtils.this', B + 'utilities:DateUtils.next']))
    obs.append(Ob('O9.1-keys-through-parser', 'fn', 'harness.datekeys:audit_keys', slices=[{'lang': 'english'}], timeout=max(t, 300),
                  descr='audit through the real code (finite, exhaustive over table keys): every month key x day key of the wired English maps (names, abbreviations, 10, 05, ...) '
                        'without a year decodes to that month and day in both candidates (the symbolic obligation replaces the tables by one-entry tables)',
                  bounds='3 870 key pairs', encodes=['recognizers_date_time.date_time.base_date:BaseDateParser.match_to_date']))
    return obs
