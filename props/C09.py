from lib.driver import Ob

LEVEL = 'model_checking'
EXPLANATION = ('symx (native execution on z3-backed int/date proxies) executes the real date parser (match_to_date + generate_dates for month/day without year, parse_implicit_date weekday '
               'branch for bare weekdays) and the merged parser resolution builder on symbolic reference datetimes; the two emitted candidates '
               'are checked to be the latest occurrence strictly before and the earliest on/after the reference date, in past/future order.')
ASSUMPTIONS = ['regex match stubbed (FakeRegex/FakeMatch)', 'one-entry month/day/weekday tables (real tables audited by C06 O6.5)']
OUTSIDE = ['regex languages of the date patterns', 'reference years outside 1950..2090 (2100 is not a leap year)']
B = 'recognizers_date_time.date_time.'


def obligations(tier):
    t = 150 if tier == 'quick' else 600
    months = range(1, 13)
    obs = [Ob('O9.1-noyear', 'sx', 'harness.dateparse:h_noyear', slices=[{'mode': 'noyear', 'm': m, 'tod': 1} for m in months], timeout=t,
              descr='month+day without year: two candidates (past, future) = neighbouring occurrences around the reference date, open-year TIMEX',
              bounds='day 1..last day of the slice month (29 Feb separately), reference 1950..2090 with symbolic time of day, minus region KF-C09-TOD',
              encodes=[B + 'base_date:BaseDateParser.match_to_date', B + 'utilities:DateUtils.generate_dates', B + 'base_merged:BaseMergedParser._date_time_resolution'])]
    obs.append(Ob('O9.1-noyear-kf', 'sx', 'harness.dateparse:h_noyear_kf', slices=[{'mode': 'noyear', 'm': m, 'tod': 1} for m in (1, 7)], timeout=t,
                  finding='KF-C09-TOD', descr='region of known finding KF-C09-TOD', encodes=[B + 'utilities:DateUtils.generate_dates']))
    obs.append(Ob('O9.1-feb29', 'sx', 'harness.dateparse:h_feb29', slices=[{'mode': 'noyear', 'm': 2}], timeout=t,
                  descr='29 February without year: the neighbouring leap days', bounds='reference 1950..2090 (midnight)',
                  encodes=[B + 'utilities:DateUtils.generate_dates']))
    wds = [{'mode': 'weekday', 'wd': w, 'tod': 1} for w in range(1, 8)]
    obs.append(Ob('O9.2-weekday', 'sx', 'harness.dateparse:s_bare_weekday', twin='harness.dateparse:t_weekday', slices=wds, timeout=t,
                  descr='bare weekday: candidates exactly 7 days apart around the reference date, TIMEX XXXX-WXX-d, past first',
                  bounds='reference = every day number 1950-01-01..2090-12-31 with symbolic time of day; one slice per weekday',
                  encodes=[B + 'base_date:BaseDateParser.parse_implicit_date', B + 'utilities:DateUtils.this', B + 'utilities:DateUtils.next']))
    obs.append(Ob('O9.1-keys-through-parser', 'fn', 'harness.datekeys:audit_keys', slices=[{'lang': 'english'}], timeout=max(t, 300),
                  descr='audit through the real code (finite, exhaustive over table keys): every month key x day key of the wired English maps (names, abbreviations, 10, 05, ...) '
                        'without a year decodes to that month and day in both candidates (the symbolic obligation replaces the tables by one-entry tables)',
                  bounds='3 870 key pairs', encodes=['recognizers_date_time.date_time.base_date:BaseDateParser.match_to_date']))
    obs.append(Ob('O9.4-witness-written-day', 'fn', 'harness.witness:api_witness', slices=[{'w': 'F50'}], timeout=t, finding='F50', descr='API witness of the repaired F50 (written-out day: past candidate in the next year): a reappearance is a violation'))
    from props import _corpus
    import json as _json
    slices, counts, _ = _corpus.slices(tier, 'pair', tag='pair', quick_cap=8)
    obs.append(Ob('O9.4-corpus-pairs', 'sx', 'harness.apidt:h_wellformed', twin=None, slices=slices, timeout=90 if tier == 'quick' else 240,
                  descr='API level, symbolic reference datetime, every culture: on the DateTimeModel Specs inputs that yield two candidates under an open TIMEX XXXX-MM-DD / XXXX-WXX-d (inputs only; expected outputs not consulted), '
                        'for EVERY reference datetime the two values are the latest occurrence before the reference day and the earliest on or after it (same month/day in consecutive years, neighbouring leap years for 29 February, '
                        'both on the stated weekday); a single resolved candidate under such a TIMEX is a violation',
                  bounds=_corpus.REF + ', minus region KF-C09-TOD (own day with a non-zero time of day: "before" checked as "not after"); inputs per culture %s' % _json.dumps(counts),
                  encodes=_corpus.ENC + [B + 'chinese.date_parser:ChineseDateParser.parse_implicit_date', B + 'chinese.date_parser:ChineseDateParser.match_to_date'], stubs=_corpus.STUBS))
    ZD = 'recognizers_date_time.date_time.chinese.date_parser:ChineseDateParser.'
    obs.append(Ob('O9.5-chinese-noyear', 'sx', 'harness.dateparse_zh:h_zh_noyear', slices=[{'m': m} for m in range(1, 13)], timeout=t,
                  descr='Chinese month+day without a year through the real ChineseDateParser.match_to_date: two candidates around the reference day, open-year TIMEX',
                  bounds='day 1..last day of the slice month (29 Feb excluded), reference every minute 1950..2090 minus region KF-C09-TOD', encodes=[ZD + 'match_to_date', B + 'utilities:DateUtils.generate_dates']))
    obs.append(Ob('O9.5-chinese-weekday', 'sx', 'harness.dateparse_zh:h_zh_weekday', slices=[{'wd': w} for w in range(1, 8)], timeout=t,
                  descr='Chinese bare weekday through the Chinese parser\'s own weekday branch of parse_implicit_date: candidates 7 days apart around the reference day, TIMEX XXXX-WXX-d',
                  bounds='reference every minute 1950..2090 minus region KF-C09-TOD; one slice per weekday', encodes=[ZD + 'parse_implicit_date', B + 'utilities:DateUtils.this', B + 'utilities:DateUtils.next']))
    return obs
