from lib.driver import Ob

LEVEL = 'model_checking'
EXPLANATION = ('Purity is reduced to the state that outlives a call: the process-wide model cache and the thread-local decimal context. (1) One inductive cache step from an '
               'arbitrary valid cache state (shared with C17) covers request histories of any length and order. (2) every ordered pair of '
               'requests from a pool of 34 public-API requests (5 recognisers, 6 cultures incl. regional variants, numerals in both separator conventions), cold or warm cache, and the thread on which the second '
               'request runs; its result must equal that of the same request made alone in a fresh interpreter. (2b) At unit level symx runs the real digit kernel twice on one parser object, the second numeral with symbolic digits. (3) Up to 4 threads issue the same request at once on a cold cache.')
ASSUMPTIONS = ['the pool of requests (listed in harness/C02.py) stands for "any request": it contains fraction/decimal arithmetic in en, es, zh (the thread-local precision), '
               'date-time with a fixed reference, currency, dimension, sequence, choice, and culture codes that are resolved by nearest-language mapping',
               'no other state survives a call: the inventory of module-level mutable state was done by reading (ModelFactory.__cache and the decimal context); not re-derived per run']
OUTSIDE = ['OS-thread interleavings inside a call (the GIL schedule is not controllable by any installed engine): concurrency is exercised, not explored',
           'in-place mutation of ExtractResult by the parsers (not observable through the public helpers, which build fresh results per call)', 'option values other than the defaults']
T = 'recognizers_text.'


def obligations(tier):
    t = 300 if tier == 'quick' else 1200
    obs = [Ob('O2.1-cache-step', 'sx', 'harness.C17:h_cache_step', slices=[{'req': r} for r in range(12)], timeout=t,
              descr='one request from an arbitrary valid cache state returns the model of its own key and preserves the invariant (histories of any length/order)',
              bounds='key pool 2 types x 3 cultures x 2 options; <= 2 pre-cached entries', encodes=[T + 'model:ModelFactory.get_model', T + 'model:ModelFactory.try_get_model']),
           Ob('O2.2-history-thread', 'fn', 'harness.C02:history_pairs', slices=[{'i': i} for i in range(34)], timeout=t,
              descr='second request of any ordered pair = the same request made alone, for cold/warm cache and main/other thread',
              bounds='34 x 34 ordered pairs x cold/warm x same/other thread',
              engine='exhaustive composition check over the finite pair space against a fresh-interpreter baseline (not a solver verdict); counterexamples carry the process history',
              encodes=['recognizers_number.number.parsers:BaseNumberParser.parse', 'recognizers_number.number.cjk_parsers:CJKNumberParser.parse',
                       'recognizers_number.number.utilities:precision', T + 'recognizer:Recognizer.get_model']),
           Ob('O2.3-concurrent', 'sx', 'harness.C02:h_concurrent', timeout=t, descr='2..4 threads issuing the same request at once on a cold cache all get the solo answer',
              bounds='16 requests x 2..4 threads (one schedule each: exercised, not explored)', encodes=[T + 'model:ModelFactory.register_model_in_cache'])]
    from props.C03 import shapes, swap_shapes, MULTI
    hs = []
    for c in (['en-us', 'fr-fr', 'de-de'] if tier == 'quick' else ['en-us', 'es-es', 'es-mx', 'fr-fr', 'pt-br', 'de-de', 'it-it', 'nl-nl']):
        ss = shapes(tier) + (swap_shapes(tier) if c in MULTI else [])
        ss = [x for x in ss if not (x.get('neg') and x.get('grouped') and x['groups'] == [3, 3] and not x.get('frac'))]      # F13 region (C03)
        hs += [{'culture': c, 'shape': x} for x in (ss[::2] if tier == 'quick' else ss)]
    obs.append(Ob('O2.4-parser-history', 'sx', 'harness.C03:h_history_digital', slices=hs, timeout=t,
                  descr='purity at unit level: one number-parser object (the kind the process-wide cache keeps) parses each of 7..10 numerals that drive every separator branch '
                        '(own convention, the other convention, single separator, sign, fraction), then the slice numeral with symbolic digits: its value is still the number written',
                  bounds='every digit assignment of each C03 shape (quick: every second shape, 3 cultures; thorough: all shapes, 8 cultures) after each of the first requests',
                  encodes=['recognizers_number.number.parsers:BaseNumberParser._get_digital_value', 'recognizers_number.number.parsers:BaseNumberParser.__init__']))
    obs.append(Ob('O2.5-corpus-orders', 'fn', 'harness.corpus:order_independence', slices=[{'limit': 150, 'orders': [0, -1, 7]} if tier == 'quick' else {'limit': 1000, 'orders': [0, -1, 7, 11, 23]}], timeout=max(t, 600),
                  descr='order independence over a long varied history (composition check, not a solver verdict): the inputs of 11 model-level Specs files (used only as a pool of realistic queries; '
                        'the expected outputs of the corpus are not consulted) are recognised in fresh interpreters in 3 (thorough 5) different orders; every query must get the identical result in every order',
                  bounds='about 1 260 queries (thorough about 4 000) in en-us, fr-fr, es-es, zh-cn over number, ordinal, percentage, currency, dimension and date-time models',
                  encodes=[T + 'model:ModelFactory.get_model']))
    obs.append(Ob('O2.0-state-inventory', 'fn', 'harness.C02:state_inventory', timeout=t,
                  descr='frame condition (static, not a verdict): every class/module-level mutable container or memo in the recogniser packages is on the reviewed list; a new one makes the run inconclusive',
                  bounds='AST scan of the seven library packages, resource tables excluded'))
    return obs
