from lib.driver import Ob

LEVEL = 'model_checking'
EXPLANATION = ('The patterns actually used for matching (remove_unicode_matches output of the compiled TrueRegex/FalseRegex) are translated to z3 regexes: the solver '
               'decides that no string is matched by both polarities; the word alternatives are enumerated from the real pattern source and confirmed members by z3. '
               'Every alternative x letter case x surrounding punctuation/filler context, every neutral token sequence and every true/false pair then runs through the '
               'real BooleanModel (symx enumerates the index space through the solver).')
ASSUMPTIONS = ['contexts: none, "!", ".", parentheses, "well, X please", "ummm X", "X , thanks", surrounding blanks; cases: lower, UPPER, Title, Capitalised',
               'neutral pool of 12 tokens (incl. words that contain an alternative as a substring: yesterday, know, noon, agreed, trueish)']
OUTSIDE = ['cultures other than English (only English has a choice model in the Python port)', 
           'ChoiceExtractor.match_value internal scores (the model always reports score 0.0; StringUtility.index_of returns 1 for a missing token, so the internal '
           'score can exceed 1 -- observation, not visible at the API)']
C = 'recognizers_choice.choice.'


def obligations(tier):
    t = 150 if tier == 'quick' else 900
    obs = [Ob('O20.2-disjoint', 'fn', 'harness.C20:disjoint_polarities', timeout=t, descr='no string is matched by both the true and the false pattern',
              bounds='unbounded length', engine='z3 regular-expression solver on the translated patterns'),
           Ob('O20.1-polarity', 'sx', 'harness.C20:h_polarity', twin='harness.C20:t_polarity', timeout=t,
              descr='each listed alternative, in any letter case and context, yields exactly one entity spanning it with its polarity and a score in [0,1]',
              bounds='all alternatives of both patterns x 4 case patterns x 8 contexts',
              encodes=[C + 'extractors:ChoiceExtractor.extract', C + 'extractors:BooleanExtractor.__init__', C + 'parsers:ChoiceParser.parse', C + 'parsers:BooleanParser.__init__',
                       C + 'models:ChoiceModel.parse', C + 'models:BooleanModel.get_resolution', 'recognizers_text.utilities:StringUtility.remove_unicode_matches']),
           Ob('O20.3-neutral', 'sx', 'harness.C20:h_neutral', slices=[{'maxn': 2 if tier == 'quick' else 3}], timeout=t,
              descr='text without any listed expression (incl. empty / blank) yields nothing', bounds='sequences of 0..2 (thorough 3) neutral tokens, two punctuation styles',
              encodes=[C + 'extractors:ChoiceExtractor.extract']),
           Ob('O20.3-both', 'sx', 'harness.C20:h_both', timeout=t, descr='both polarities present: one entity, one of the two expressions, with its own polarity',
              bounds='every true x false pair, both orders', encodes=[C + 'extractors:ChoiceExtractor.extract']),
           Ob('O20.2-thumbs-up', 'fn', 'harness.C20:api_witness_thumbs_up', timeout=t, finding='F11', descr='API witness of known finding F11'),
           Ob('O20.4-emoji', 'fn', 'harness.C20:emoji_polarity', slices=[{'emoji': e} for e in ('ok_hand', 'thumbs_down', 'raised_hand_fingers')], timeout=t,
              descr='the emoji alternatives the English resource names, written as single code points (independent list): alone, with skin-tone modifiers and in 6 punctuation / filler contexts each yields exactly one entity at the emoji with its polarity',
              bounds='3 emoji x 4 skin tones x 6 contexts (finite grammar, composition check through the real model)'),
           Ob('O20.4-emoji-known', 'fn', 'harness.C20:emoji_polarity', slices=[{'emoji': 'raised_hand'}], timeout=t, finding='F40', descr='region F40: the raised hand U+270B')]
    return obs
