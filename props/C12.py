from lib.driver import Ob

LEVEL = 'model_checking'
EXPLANATION = ('One inductive step per overlap-resolution mechanism, on symbolic intervals (symx + z3): the real sweep / add_to / merge_all_tokens / '
               'b_add code runs on arbitrary contract-respecting match or result intervals and the output must be pairwise disjoint. Known '
               'defects are excluded as regions of the symbolic input space and searched separately. At API level composed date-time / unit queries (en-us, zh-cn; thorough es, fr, pt, de) go through the '
               'real recognisers; an overlap is excused only when a call-site monitor attributes that very pair to a recorded finding (F3a, F36) or the query to F37.')
ASSUMPTIONS = ['regex finditer contract: per pattern the matches are non-empty, ordered, non-overlapping and inside the source',
               'the negative-term pattern is $-anchored (checked on the real patterns of every culture: O12.0) and lies outside number matches',
               'bounded source length and number of matches/results (see bounds per obligation)']
OUTSIDE = ['interplay of the real sub-extractors on a sentence outside the composed pools',
           'merged number/unit grouping (BaseMergedNumberExtractor / BaseMergedUnitExtractor) is not built']
S = 'harness.spans:'


def sweep_slices(tier):
    sl = [{'src': 'ab cd', 'k': [1, 1]}, {'src': 'ab cd', 'k': [2, 1]}, {'src': 'ab cd', 'k': [2, 0]}, {'src': 'a bcd e', 'k': [1, 1]}]
    if tier == 'thorough':
        sl += [{'src': 'a bcd e', 'k': [2, 1]}, {'src': 'ab cd ef', 'k': [2, 1]}, {'src': 'ab  cd ef', 'k': [1, 1]}]
    return sl


def obligations(tier):
    t = 200 if tier == 'quick' else 1500
    nd = [2, 3] if tier == 'quick' else [1, 2, 3]
    ln = 8 if tier == 'quick' else 12
    obs = [
        Ob('O12.1-add_to', 'sx', S + 'h_add_to', twin=S + 't_add_to', slices=[{'nd': n, 'len': ln} for n in nd], timeout=t,
           descr='BaseMergedExtractor.add_to: disjoint destinations + one new result -> disjoint, nothing dropped uncovered (minus region F3a)',
           bounds='2..3 destinations and one value anywhere in a text of length %d (all symbolic)' % ln,
           encodes=['recognizers_date_time.date_time.base_merged:BaseMergedExtractor.add_to', 'recognizers_text.extractor:ExtractResult.overlap',
                    'recognizers_text.extractor:ExtractResult.cover']),
        Ob('O12.1-add_to-kf', 'sx', S + 'h_add_to_kf', slices=[{'nd': 2, 'len': 8}], timeout=t, finding='F3a',
           descr='region F3a: the value covers one destination and partially overlaps another'),
        Ob('O12.1-witness', 'fn', 'harness.witness:api_witness', slices=[{'w': 'F3a'}], timeout=t, finding='F3a', descr='API witness of F3a'),
        Ob('O12.2-merge_all_tokens', 'sx', S + 'h_merge_all_tokens', slices=[{'src': 'abcdef', 'nt': 2}, {'src': 'abcde', 'nt': 3}] +
           ([{'src': 'abcdefg', 'nt': 3}, {'src': 'abcde', 'nt': 4}] if tier == 'thorough' else []), timeout=t,
           descr='merge_all_tokens: surviving tokens are pairwise disjoint, each is an input token, no token vanishes without a competitor',
           bounds='2..3 tokens (thorough 4) anywhere in a text of length 5..7', encodes=['recognizers_date_time.date_time.utilities:merge_all_tokens']),
        Ob('O12.3-number-sweep', 'sx', S + 'h_number_sweep', twin=S + 't_number_sweep', slices=sweep_slices(tier), timeout=t,
           descr='matched[] union sweep of BaseNumberExtractor.extract (+ negative-term widening): results disjoint, each an exactly matched maximal run',
           bounds='source of 5..7 chars (thorough 9), 2 patterns with <=2 and <=1 matches at symbolic positions, optional negative-term match',
           encodes=['recognizers_number.number.extractors:BaseNumberExtractor.extract']),
        Ob('O12.3-sequence-sweep', 'sx', S + 'h_sequence_sweep', slices=sweep_slices(tier), timeout=t,
           descr='the same sweep in SequenceExtractor.extract', bounds='as O12.3-number-sweep',
           encodes=['recognizers_sequence.sequence.extractors:SequenceExtractor.extract']),
        Ob('O12.4-b_add', 'sx', S + 'h_b_add', slices=[{'src': 'abcdefgh'}], timeout=t,
           descr='AbstractNumberWithUnitModel.parse: results that are pairwise identical or disjoint (what its extractors deliver and its accumulating loop re-processes) come out pairwise disjoint, each once',
           bounds='3 parse results anywhere in a text of length 8',
           encodes=['recognizers_number_with_unit.number_with_unit.models:AbstractNumberWithUnitModel.parse']),
        Ob('O12.4-b_add-two-extractors', 'sx', S + 'h_b_add_two', slices=[{'src': 'abcdefgh'}], timeout=t,
           descr='a unit model with two extractor/parser pairs (zh-cn: Chinese extractor + English fallback): a second-extractor result that covers a first-extractor result is dropped; '
                 'the output is pairwise disjoint and nothing else vanishes (second-extractor results inside or across an earlier result: region F36)',
           bounds='2 + 2 parse results anywhere in a text of length 8', encodes=['recognizers_number_with_unit.number_with_unit.models:AbstractNumberWithUnitModel.parse']),
        Ob('O12.4-b_add-two-kf', 'sx', S + 'h_b_add_two_kf', slices=[{'src': 'abcdefgh'}], timeout=t, finding='F36',
           descr='region F36: a later result inside or across an earlier one is kept'),
        Ob('O12.4-witness', 'fn', S + 'api_witness_f36', timeout=t, finding='F36', descr='API witness of F36'),
        Ob('O12.6-witness-zh-unit', 'fn', 'harness.witness:api_witness', slices=[{'w': 'F41'}], timeout=t, finding='F41', descr='API witness of F41 (zh-cn: suffix unit swallows the next numeral)'),
        Ob('O12.6-witness-zh', 'fn', 'harness.witness:api_witness', slices=[{'w': 'F37-overlap'}], timeout=t, finding='F37', descr='API witness of F37 (zh-cn modifier widening: overlapping entities)'),
        Ob('O12.5-select-candidates', 'sx', S + 'h_select_candidates', timeout=max(t, 300),
           descr='NumberWithUnitExtractor._select_candidates: prefix/suffix currency candidates that share a unit are resolved to pairwise disjoint entities',
           bounds='2..3 candidates (one number each, numbers distinct, units possibly shared) anywhere in a text of length 10, prefix/suffix flags symbolic',
           encodes=['recognizers_number_with_unit.number_with_unit.extractors:NumberWithUnitExtractor._select_candidates']),
        Ob('O12.5-unit-extract', 'sx', S + 'h_unit_extract', twin=S + 't_unit_extract', slices=[{'usrc': 'ab cd ef'}] + ([{'usrc': 'ab  cd ef gh'}] if tier == 'thorough' else []), timeout=t,
           descr='NumberWithUnitExtractor.extract with one number, <=1 prefix and <=1 suffix unit match: at most the expected entity, never two overlapping ones',
           bounds='source of 8 chars (thorough 12), all positions symbolic', encodes=['recognizers_number_with_unit.number_with_unit.extractors:NumberWithUnitExtractor.extract']),
        Ob('O12.0-neg-anchor', 'fn', 'harness.tables:audit_negative_terms', timeout=t,
           descr='audit: the negative-number-term pattern of every culture extractor is anchored at the end of the prefix (premise of the sweep stub)'),
    ]
    cs = [{'kind': k, 'pad': a} for k in ('datetime', 'currency') for a in range(10)] + [{'kind': 'dimension'}, {'kind': 'percentage'}]
    cs += [{'kind': k, 'culture': 'zh-cn'} for k in ('currency', 'dimension', 'age', 'temperature', 'datetime')]
    if tier == 'thorough':
        cs += [{'kind': k, 'culture': c} for c in ('es-es', 'fr-fr', 'pt-br', 'de-de') for k in ('currency', 'datetime')]
    obs.append(Ob('O12.6-composed', 'sx', 'harness.compose:h_compose', slices=cs, timeout=max(t, 300),
                  descr='API level, all real regexes: date/time, currency, dimension and percentage queries assembled from pools (phrases sharing an hour digit, '
                        'adjacent dates, ranges, modifiers, units sharing a sign): the returned entities are pairwise disjoint; an overlap is excused only when the '
                        'add_to monitor attributes it to the recorded finding F3a (value covers one result and crosses another)',
                  bounds='9 pads x 3..7 prefixes x 5..9 bodies x 7 tails per recogniser, enumerated through the solver; en-us',
                  encodes=['recognizers_date_time.date_time.base_merged:BaseMergedExtractor.extract', 'recognizers_date_time.date_time.utilities:merge_all_tokens',
                           'recognizers_number_with_unit.number_with_unit.models:AbstractNumberWithUnitModel.parse'],
                  stubs=['BaseMergedExtractor.add_to wrapped by a recording monitor (calls the real one)'],
                  engine='symx (solver-driven small-scope enumeration); the recognisers run natively'))
    obs.append(Ob('O12.7-corpus-disjoint', 'fn', 'harness.corpus:span_scan', slices=[{'culture': c} for c in ('en-us', 'es-es', 'fr-fr', 'pt-br', 'zh-cn')], timeout=max(t, 600),
                  descr='composition check (not a solver verdict): the inputs of the model-level Specs files (a pool of realistic queries; expected outputs not consulted) through the public recognisers: the returned '
                        'entities are pairwise disjoint (and satisfy the span contract); monitor-attributed F3a / F36 / F37 / F41 pairs excused, the two Spanish inputs of F43 skipped',
                  bounds='about 6 000 queries in 5 cultures'))
    obs.append(Ob('O12.7-witness-es', 'fn', 'harness.witness:api_witness', slices=[{'w': 'F43'}], timeout=t, finding='F43', descr='API witness of F43 (es-es overlapping date-time entities)'))
    return obs
