from lib.driver import Ob

LEVEL = 'model_checking'
EXPLANATION = ('Small-scope exhaustive exploration driven by the solver: culture codes are assembled from symbolic indices (language x region x '
               'letter case), symx enumerates the feasible index values through z3 and runs the real Culture.map_to_nearest_language / '
               'Recognizer.get_model / ModelFactory code natively on each; the cache obligation is one inductive step from an arbitrary cache '
               'state satisfying the invariant "every entry is what its own key would have built", which covers request histories of any length.')
ASSUMPTIONS = ['culture strings are <language>[-<region>] with the listed languages/regions (all supported ones plus unknown ones) in any letter case, plus None and ""',
               'single letters and proper prefixes of language codes are not culture codes (they map to tr-tr / fr-fr / en-*: observation N2 in DESIGN)',
               'model constructors are replaced by tagged sentinels (no model is built)']
OUTSIDE = ['arbitrary free-form strings as culture codes', 'thread interleavings on the shared cache (see C02)']
T = 'recognizers_text.'


EXTRA = {'quick': {}, 'thorough': {'allreg': 1, 'allcase': 1}}
NTYPES = {'number': 3, 'unit': 4, 'datetime': 1, 'sequence': 7, 'choice': 1}


def obligations(tier):
    t = 120 if tier == 'quick' else 600
    obs = [Ob('O17.1-map', 'sx', 'harness.C17:h_map', twin='harness.C17:t_map', timeout=t, slices=[dict({'li': i}, **EXTRA[tier]) for i in range(15)],
              descr='map_to_nearest_language realises the relation of the statement', bounds='15 languages x 8 regions (thorough: 16) x with/without region x 4 letter-case patterns (thorough: all 32)',
              encodes=[T + 'culture:Culture.map_to_nearest_language']),
           Ob('O17.1-none', 'sx', 'harness.C17:h_map_degenerate', timeout=t, descr='None / empty code -> None; supported list as documented',
              encodes=[T + 'culture:Culture.map_to_nearest_language'])]
    for rec in ('number', 'unit', 'datetime', 'sequence', 'choice'):
        obs.append(Ob('O17.2-route-' + rec, 'sx', 'harness.C17:h_route', twin='harness.C17:t_route', slices=[dict({'rec': rec, 'ti': i}, **EXTRA[tier]) for i in range(NTYPES[rec])], timeout=t,
                      descr='Recognizer.get_model with the real registration table: model of the resolved culture, else English iff fallback, else ValueError',
                      bounds='every registered model type x language x region x {lower, UPPER} x fallback flag',
                      encodes=[T + 'recognizer:Recognizer.get_model', T + 'model:ModelFactory.get_model', T + 'model:ModelFactory.try_get_model']))
    obs.append(Ob('O17.3-cache-step', 'sx', 'harness.C17:h_cache_step', timeout=t, slices=[{'req': r} for r in range(12)],
                  descr='one request from an arbitrary valid cache state: right model, never one cached under a different (type, culture, options); invariant preserved',
                  bounds='key pool 2 types x 3 cultures x 2 options; <= 2 pre-cached entries; any request; both fallback values',
                  encodes=[T + 'model:ModelFactory.get_model', T + 'model:ModelFactory.get_model_from_cache', T + 'model:ModelFactory.register_model_in_cache',
                           T + 'model:ModelFactory.register_model']))
    obs.append(Ob('O17.4-options', 'sx', 'harness.C17:h_options', timeout=t, descr='recogniser constructors accept exactly the declared option range',
                  bounds='options -3..40', encodes=['recognizers_number.number.number_recognizer:NumberRecognizer.__init__',
                                                    'recognizers_date_time.date_time.date_time_recognizer:DateTimeRecognizer.__init__']))
    return obs
