from lib.driver import Ob

LEVEL = 'model_checking'
EXPLANATION = ('The real NumberWithUnitParser.parse / BaseCurrencyParser.parse run (symx, index space enumerated through the solver) on every listed spelling of a batch (English; fr, es, pt, de, it, nl, zh through harness/C05c.py) in '
               'four layouts (suffix/prefix, with/without blank), number lengths 1..3 and both letter cases; the unit must be the canonical name an independent reading of the '
               'tables gives, the number the inner parser\'s resolution, the ISO code the table\'s. bind_dictionary is checked on all small dictionaries. The real compound-currency merge code runs on traced numbers for all 157 main/fraction pairs (z3 LRA); its '
               'double-precision term is examined with z3 floating-point queries against one correctly rounded division.')
ASSUMPTIONS = ['the inner number parser is a stub returning a fixed resolution string (the numeral itself is C03)', 'the unit entity text is "<number><blank?><spelling>" or "<spelling><blank?><number>" with the number span relative to it',
               'quick tier covers a quarter of the spelling batches per entity type, thorough all']
OUTSIDE = ['the extractor side (StringMatcher over the tables: C16 for the matcher itself)', 'half / connector-token / bracketed units',
           'compound amounts with more than one fraction part or an inner bare number', 'floating-point claim only for N < 2^10 (bit-blasting cost)']
P = 'recognizers_number_with_unit.number_with_unit.'
COUNTS = {'currency': 1048, 'dimension': 570, 'temperature': 54, 'age': 34}


def _culture_counts():
    """number of distinct listed spellings per (language, entity type), read from the real resource classes at run time"""
    import importlib
    from lib import env
    env.setup_paths()
    wiring = {'currency': ['CurrencySuffixList', 'CurrencyPrefixList'],
              'dimension': ['InformationSuffixList', 'AreaSuffixList', 'LengthSuffixList', 'SpeedSuffixList', 'VolumeSuffixList', 'WeightSuffixList', 'DimensionSuffixList'],
              'temperature': ['TemperatureSuffixList', 'TemperaturePrefixList'], 'age': ['AgeSuffixList']}
    kinds = {'french': 4, 'spanish': 4, 'portuguese': 4, 'german': 1, 'italian': 1, 'dutch': 4, 'chinese': 4}
    out = {}
    for lang, nk in kinds.items():
        m = importlib.import_module('recognizers_number_with_unit.resources.%s_numeric_with_unit' % lang)
        R = getattr(m, lang.capitalize() + 'NumericWithUnit')
        out[lang] = {}
        for kind in list(wiring)[:nk]:
            names = list(wiring[kind]) + (['AngleSuffixList'] if (lang == 'dutch' and kind == 'dimension') else [])
            sp = set()
            for n in names:
                for unit, spellings in getattr(R, n, {}).items():
                    sp.update(x for x in spellings.strip().split('|') if x)
            out[lang][kind] = len(sp)
    return out


def obligations(tier):
    t = 200 if tier == 'quick' else 1200
    B = 40
    sl = []
    for kind, n in COUNTS.items():
        offs = list(range(0, n, B))
        if tier == 'quick':
            offs = offs[::4]
        sl += [{'kind': kind, 'off': o, 'cnt': B} for o in offs]
    obs = [Ob('O5.1-unit-lookup', 'sx', 'harness.C05:h_unit_lookup', twin='harness.C05:t_unit_lookup', slices=sl, timeout=t,
              descr='number + listed spelling (4 layouts, upper/lower case) -> canonical unit of the table, number = inner resolution, span kept',
              bounds='batches of 40 spellings of the English currency/dimension/temperature/age tables (quick: every 4th batch) x 4 layouts x number length 1..3 x case',
              encodes=[P + 'parsers:NumberWithUnitParser.parse', P + 'utilities:DictionaryUtility.bind_dictionary']),
           Ob('O5.1-blank-spelling', 'sx', 'harness.C05:h_unit_lookup', slices=[{'kind': 'dimension', 'off': 0, 'cnt': 3, 'blank_kf': 1}], timeout=t, finding='F12',
              descr='region F12: listed spellings with a leading/trailing blank'),
           Ob('O5.2-bind-dictionary', 'sx', 'harness.C05:h_bind_dictionary', timeout=t, descr='bind_dictionary: first listing unit wins, empty spellings ignored',
              bounds='all dictionaries of 2 units x 2 spellings over {x, y, z, empty}', encodes=[P + 'utilities:DictionaryUtility.bind_dictionary', P + 'utilities:DictionaryUtility.bind_units_string']),
           Ob('O5.3-iso-code', 'sx', 'harness.C05:h_iso', slices=[{'kind': 'currency', 'off': o, 'cnt': 120} for o in (range(0, 1048, 120) if tier == 'thorough' else (0, 480, 960))], timeout=t,
              descr='single-unit currency: ISO code of the table for the canonical unit; fake ISO codes not reported', bounds='batches of 120 currency spellings',
              encodes=[P + 'parsers:BaseCurrencyParser.parse']),
           Ob('O5.4-compound-fp', 'fn', 'harness.C05:fp_compound_traced', slices=[{'w': 8 if tier == 'quick' else 12, 'mode': 'exact'}], timeout=max(t, 300), finding='F4',
              descr='region F4: is the double computed by the real merge code (traced on IEEE-double proxies: fl(N + fl(M * fl(1/100)))) the nearest double of the decimal amount?  (z3 QF_FP)', bounds='US dollar / cent, 1 <= N < 2^8 (thorough 2^12), M < 100',
              encodes=[P + 'parsers:BaseCurrencyParser.__merge_compound_unit'], engine='z3 floating-point (bit-blasted) query on the term traced from the real __merge_compound_unit'),
           Ob('O5.4-compound-pairs', 'fn', 'harness.C05:compound_real', slices=[{'b': b, 'nb': 4} for b in range(4)], timeout=max(t, 300),
              descr='every main/fraction currency pair the real English tables wire together (157): the real merge code, traced over exact reals, yields one entity over the whole '
                    'span with the main unit and ISO code, worth N + M/ratio (up to the rounding of the constant 1/ratio)', bounds='1 <= N < 10^12, 0 <= M < ratio, all pairs',
              encodes=[P + 'parsers:BaseCurrencyParser.__merge_compound_unit', P + 'parsers:BaseCurrencyParser.__create_currency_result', P + 'parsers:BaseCurrencyParser.__check_units_string_contains'],
              stubs=['inner NumberWithUnitParser.parse -> returns the unit name and a traced number', 'culture_info.format -> identity', 'float() in the parsers module -> traced number'],
              engine='z3 linear real arithmetic on the term traced from the real code'),
           Ob('O5.4-witness', 'fn', 'harness.C05:api_witness_f4', timeout=t, finding='F4', descr='API witness of F4')]
    CUL = _culture_counts()
    csl = []
    for lang, kinds in CUL.items():
        for kind, n in kinds.items():
            offs = list(range(0, n, B))
            if tier == 'quick':
                offs = offs[::8]
            csl += [{'lang': lang, 'kind': kind, 'off': o, 'cnt': B} for o in offs]
    obs.append(Ob('O5.1-unit-lookup-cultures', 'sx', 'harness.C05c:h_unit_lookup', slices=csl, timeout=t,
                  descr='the same obligation with the parser configuration, resource class and tables of fr, es, pt, de, it, nl, zh (currency; dimension, temperature, age where the culture has them)',
                  bounds='batches of 40 spellings (quick: every 8th batch, thorough: all ~9000 spellings) x 4 layouts x number length 1..3 x case',
                  encodes=[P + 'parsers:NumberWithUnitParser.parse', P + 'utilities:DictionaryUtility.bind_dictionary']))
    obs.append(Ob('O5.1-blank-spelling-cultures', 'sx', 'harness.C05c:h_unit_lookup', finding='F24', timeout=t,
                  slices=[{'lang': 'portuguese', 'kind': 'currency', 'off': 0, 'cnt': 3, 'blank_kf': 1}, {'lang': 'portuguese', 'kind': 'temperature', 'off': 0, 'cnt': 1, 'blank_kf': 1},
                          {'lang': 'italian', 'kind': 'currency', 'off': 0, 'cnt': 3, 'blank_kf': 1}],
                  descr='region F24: Portuguese and Italian spellings listed with a leading blank'))
    isl = [{'lang': lang, 'kind': 'currency', 'off': o, 'cnt': 120} for lang, kinds in CUL.items() for o in (range(0, kinds['currency'], 120) if tier == 'thorough' else (0, 240))]
    obs.append(Ob('O5.3-iso-code-cultures', 'sx', 'harness.C05c:h_iso', slices=isl, timeout=t,
                  descr='single-unit currency in fr, es, pt, de, it, nl, zh: the ISO code is the one the culture table assigns to the canonical unit', bounds='batches of 120 currency spellings',
                  encodes=[P + 'parsers:BaseCurrencyParser.parse']))
    if tier == 'thorough':
        obs.append(Ob('O5.4-compound-ulp', 'fn', 'harness.C05:fp_compound_traced', slices=[{'w': 10, 'mode': 'ulp'}], timeout=1200,
                      descr='the computed amount is never more than one ulp from the nearest double of the decimal amount', bounds='N < 2^10, M < 100',
                      engine='z3 floating-point (bit-blasted) query'))
    obs.append(Ob('O5.6-longest-prefix', 'sx', 'harness.spans:h_unit_extract_prefixes', slices=[{'usrc': 'ab cd ef'}] + ([{'usrc': 'ab  cd ef gh'}] if tier == 'thorough' else []), timeout=t,
                  descr="NumberWithUnitExtractor.extract with two prefix-unit matches in front of one number, the second being the tail of the first ('hk $' and '$' in 'hk $ 7'): the entity starts at the longer listed spelling "
                        '(so that the unit is the one the table lists for the whole spelling)',
                  bounds='number and both prefix matches at symbolic positions in a source of 8 (12) characters', encodes=['recognizers_number_with_unit.number_with_unit.extractors:NumberWithUnitExtractor.extract'],
                  stubs=['number extractor and prefix / suffix matchers are stubs delivering the symbolic spans (matches sorted by start, as the real matcher delivers them)']))
    obs.append(Ob('O5.5-wiring', 'fn', 'harness.C05w:audit_wiring', timeout=t,
                  descr='audit (finite, exhaustive over the registry; not a solver verdict): every unit model registered for a culture builds its parser configuration and the number parser inside it for that culture '
                        '(the symbolic obligations stub that inner parser, i.e. assume it is the culture\'s own); the English pair inside the Chinese models is English on purpose',
                  bounds='34 (model type, culture, parser) triples incl. the regional culture es-mx', encodes=['recognizers_number_with_unit.number_with_unit.number_with_unit_recognizer:NumberWithUnitRecognizer.initialize_configuration']))
    obs.append(Ob('O5.5-api-numerals', 'fn', 'harness.C05w:api_numerals', timeout=t,
                  descr='composition through the public API (small-scope enumeration, not a solver verdict): numerals with decimal / grouping marks + a unit in 8 cultures incl. es-mx: whenever the number model reads the numeral as one number '
                        'and the unit model returns one entity over the text, the unit value is the number model\'s value', bounds='about 200 texts'))
    return obs
