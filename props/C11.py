import json

from lib.driver import Ob

LEVEL = 'model_checking'
EXPLANATION = ('symx executes the real resolution builder (set_parse_result -> _date_time_resolution -> _generate_from_resolution / __add_single_date_time_to_resolution / '
               '__add_period_to_resolution / _determine_date_time_types) on resolution dictionaries rendered by the real formatters from symbolic datetimes, one slice per '
               '(type, modifier, validity pattern); and the validity guards safe_create_from_min_value / is_valid_date / is_valid_time on symbolic fields. '
               'The "non-existent date -> not resolved" and "definite TIMEX = value" clauses for dates are decided end to end by C06 O6.2, for times by C07 O7.2/O7.4.')
ASSUMPTIONS = ['the per-type parsers hand the builder future/past dictionaries with the keys of their type (as BaseDateParser.parse etc. do)',
               'min-value sides are considered for date and datetime kinds (a time of day has no min-value rendering)']
OUTSIDE = ['Specs inputs whose symbolic exploration does not finish in 60 s at screening time (listed under "slow" in harness/c11_inputs*.json; 58 for English)', 'set / timezone types, Chinese merged parser', 'holiday date functions']
B = 'recognizers_date_time.date_time.base_merged:BaseMergedParser.'


def obligations(tier):
    t = 120 if tier == 'quick' else 600
    sl = []
    for dt in ('date', 'datetime'):
        for mod in ('', 'before', 'after', 'since', 'until'):
            sl.append({'dtype': dt, 'mod': mod})
        for mod in ('before', 'after', 'since', 'until'):
            sl += [{'dtype': dt, 'mod': mod, 'fut': 'min', 'past': 'min'}, {'dtype': dt, 'mod': mod, 'fut': 'min'}, {'dtype': dt, 'mod': mod, 'same': 1, 'past': 'min'}]
        sl += [{'dtype': dt, 'same': 1}, {'dtype': dt, 'fut': 'min'}, {'dtype': dt, 'past': 'min'}, {'dtype': dt, 'fut': 'min', 'past': 'min'},
               {'dtype': dt, 'same': 1, 'mod': 'before'}]
    sl += [{'dtype': 'time'}, {'dtype': 'time', 'same': 1}, {'dtype': 'time', 'same': 1, 'mod': 'after'}]
    for dt in ('daterange', 'datetimerange'):
        sl += [{'dtype': dt}, {'dtype': dt, 'fut': 'min'}]
    sl += [{'dtype': 'timerange'}, {'dtype': 'duration'}]
    obs = [Ob('O11.2-resolution-builder', 'sx', 'harness.C11:h_resolution', twin='harness.C11:t_resolution', slices=sl, timeout=t,
              descr='values have the shape their type promises, type name = value type, min-value sides never appear, nothing valid -> one "not resolved", past before future',
              bounds='dates 1900..2099 (day<=28), any h:m; one slice per type x modifier x validity pattern',
              encodes=[B + 'set_parse_result', B + '_date_time_resolution', B + '_generate_from_resolution', B + '_determine_date_time_types',
                       B + '__add_single_date_time_to_resolution', B + '__add_period_to_resolution',
                       'recognizers_date_time.date_time.utilities:DateTimeFormatUtil.format_date', 'recognizers_date_time.date_time.utilities:DateTimeFormatUtil.format_time',
                       'recognizers_date_time.date_time.utilities:DateTimeFormatUtil.format_date_time']),
           Ob('O11.3-validity-guards', 'sx', 'harness.C11:h_safe_create', timeout=t,
              descr='safe_create_from_min_value / is_valid_date / is_valid_time: the given instant when it exists, the min-value marker otherwise',
              bounds='year 1..9999, month -1..14, day -1..33, hour -1..25, minute -1..61',
              encodes=['recognizers_date_time.date_time.utilities:DateUtils.safe_create_from_value', 'recognizers_date_time.date_time.utilities:DateUtils.is_valid_date',
                       'recognizers_date_time.date_time.utilities:DateUtils.is_valid_time'])]
    zh_fixed = ['万圣节', '中秋', '中秋节', '五一', '儿童节', '元宵节', '元旦', '元旦节', '光棍节', '劳动节', '双十一', '国庆节', '圣诞节', '女生节', '妇女节', '平安夜', '建军节', '情人节', '愚人节', '教师节',
                '新年', '春节', '植树节', '清明', '清明节', '端午', '端午节', '重阳节', '除夕', '青年节']
    zh_var = ['感恩节', '母亲节', '父亲节']
    hs = [{'name': n} for n in (zh_fixed if tier == 'thorough' else zh_fixed[::3] + ['除夕', '春节']) + zh_var]
    hs += [{'name': n, 'rel': r} for n in ('除夕', '圣诞节', '母亲节') for r in ('明年', '去年', '今年')]
    obs.append(Ob('O11.6-chinese-holiday-year', 'sx', 'harness.C11zh:h_holiday_year', twin='harness.C11zh:t_holiday_year', slices=hs, timeout=t,
                  descr='Chinese holiday with an explicit or relative year through the real ChineseHolidayParser._match2date: the TIMEX year is the stated year and, when the TIMEX is a definite date, the resolved value equals it',
                  bounds='year 1900..2099 (digit placeholders), reference year 1950..2090; one slice per holiday name of the parser\'s own tables (every third fixed holiday in quick) and relative-year word',
                  encodes=['recognizers_date_time.date_time.chinese.holiday_parser:ChineseHolidayParser._match2date', 'recognizers_date_time.date_time.chinese.holiday_parser:ChineseHolidayParser.__convert_year'],
                  stubs=['the regex match object is a stub with the groups holiday / year / yearrel']))
    rd = [{'word': w, 'unit': 'H', 'nmax': 6 if tier == 'quick' else 40} for w in ('next', 'past')]
    obs.append(Ob('O11.7-relative-duration', 'sx', 'harness.C10b:h_relative_duration', twin='harness.C10b:t_relative_duration', slices=rd, timeout=max(t, 240),
                  descr="definite TIMEX = value for reference-relative date-time ranges: 'next / past N hours' through the real BaseDateTimePeriodParser.parse_duration around a symbolic reference instant: "
                        'the TIMEX endpoints are exactly the resolved start and end (also across midnight, month and year ends)',
                  bounds='reference = every second 1950..2090; N = 1..6 hours (thorough 1..40)', encodes=['recognizers_date_time.date_time.base_datetimeperiod:BaseDateTimePeriodParser.parse_duration'],
                  stubs=['duration extractor / parser return one duration of N hours']))
    from props import _corpus
    slices, counts, region = _corpus.slices(tier, 'timex', quick_cap={'en-us': 50, 'es-es': 25, 'fr-fr': 25, 'nl-nl': 25, 'zh-cn': 25, '*': 15})
    obs.append(Ob('O11.4-corpus-wellformed', 'sx', 'harness.apidt:h_wellformed', twin=None, slices=slices, timeout=90 if tier == 'quick' else 240,
                  descr='API level, symbolic reference datetime: for each DateTimeModel Specs input of each culture (a pool of realistic queries; expected outputs not consulted) and EVERY reference datetime, '
                        'every value of every returned entity has the shape its type promises (valid calendar dates / times, type name = type of the values, pure date ranges with start before end) '
                        'and, when its TIMEX is fully definite (a date, a time, a date-time, or the endpoints of a (start,end,duration) TIMEX), equals it',
                  bounds=_corpus.REF + '; inputs per culture %s; the inputs listed in harness/c11_known.json are explored by the O11.4-known-* obligations instead' % json.dumps(counts),
                  encodes=_corpus.ENC, stubs=_corpus.STUBS))
    region = _corpus.regions('C11')
    for fid in sorted(region):
        obs.append(Ob('O11.4-known-' + fid, 'sx', 'harness.apidt:h_wellformed', twin=None, slices=region[fid], timeout=90 if tier == 'quick' else 240, finding=fid,
                      descr='the same exploration on the inputs whose counterexample is the recorded finding %s (identified by input): reported as KNOWN-FINDING while open' % fid,
                      bounds=_corpus.REF + '; %d inputs' % len(region[fid]), encodes=_corpus.ENC))
    obs.append(Ob('O11.4-witness-range', 'fn', 'harness.witness:api_witness', slices=[{'w': 'F45'}], timeout=t, finding='F45', descr='API witness of F45 (range with a reference-relative endpoint: start not before end)'))
    obs.append(Ob('O11.4-witness-time', 'fn', 'harness.witness:api_witness', slices=[{'w': 'F46'}], timeout=t, finding='F46', descr='API witness of the repaired F46 (time range end 27:00:00): a reappearance is a violation'))
    obs.append(Ob('O11.4-witness-zh-range', 'fn', 'harness.witness:api_witness', slices=[{'w': 'F47'}], timeout=t, finding='F47', descr='API witness of the repaired F47 (Chinese year-less period, start a year after end): a reappearance is a violation'))
    obs.append(Ob('O11.4-witness-zh-years', 'fn', 'harness.witness:api_witness', slices=[{'w': 'F48'}], timeout=t, finding='F48', descr='API witness of F48 (three years joined into the empty range 2000..2000)'))
    obs.append(Ob('O11.4-witness-year-context', 'fn', 'harness.witness:api_witness', slices=[{'w': 'F51'}], timeout=t, finding='F51', descr='API witness of F51 (range end value takes the start\'s year, TIMEX does not)'))
    return obs
