from lib.driver import Ob

LEVEL = 'model_checking'
EXPLANATION = ('symx executes the real resolution builder (set_parse_result -> _date_time_resolution -> _generate_from_resolution / __add_single_date_time_to_resolution / '
               '__add_period_to_resolution / _determine_date_time_types) on resolution dictionaries rendered by the real formatters from symbolic datetimes, one slice per '
               '(type, modifier, validity pattern); and the validity guards safe_create_from_min_value / is_valid_date / is_valid_time on symbolic fields. '
               'The "non-existent date -> not resolved" and "definite TIMEX = value" clauses for dates are decided end to end by C06 O6.2, for times by C07 O7.2/O7.4.')
ASSUMPTIONS = ['the per-type parsers hand the builder future/past dictionaries with the keys of their type (as BaseDateParser.parse etc. do)',
               'min-value sides are considered for date and datetime kinds (a time of day has no min-value rendering)']
OUTSIDE = ['"every entity produced on the Specs inputs" (corpus replay)', 'set / timezone types, Chinese merged parser', 'holiday date functions']
B = 'recognizers_date_time.date_time.base_merged:BaseMergedParser.'


def obligations(tier):
    t = 120 if tier == 'quick' else 600
    sl = []
    for dt in ('date', 'datetime'):
        for mod in ('', 'before', 'after', 'since', 'until'):
            sl.append({'dtype': dt, 'mod': mod})
        for mod in ('before', 'after', 'since', 'until'):
            sl += [{'dtype': dt, 'mod': mod, 'fut': 'min', 'past': 'min'}, {'dtype': dt, 'mod': mod, 'fut': 'min'}, {'dtype': dt, 'mod': mod, 'same': 1, 'past': 'min'}]
        sl += [{'dtype': dt, 'same': 1}, {'dtype': dt, 'fut': 'min'}, {'dtype': dt, 'past': 'min'}, {'dtype': dt, 'fut': 'min', 'past': 'min'},
               {'dtype': dt, 'same': 1, 'mod': 'before'}]
    sl += [{'dtype': 'time'}, {'dtype': 'time', 'same': 1}, {'dtype': 'time', 'same': 1, 'mod': 'after'}]
    for dt in ('daterange', 'datetimerange'):
        sl += [{'dtype': dt}, {'dtype': dt, 'fut': 'min'}]
    sl += [{'dtype': 'timerange'}, {'dtype': 'duration'}]
    obs = [Ob('O11.2-resolution-builder', 'sx', 'harness.C11:h_resolution', twin='harness.C11:t_resolution', slices=sl, timeout=t,
              descr='values have the shape their type promises, type name = value type, min-value sides never appear, nothing valid -> one "not resolved", past before future',
              bounds='dates 1900..2099 (day<=28), any h:m; one slice per type x modifier x validity pattern',
              encodes=[B + 'set_parse_result', B + '_date_time_resolution', B + '_generate_from_resolution', B + '_determine_date_time_types',
                       B + '__add_single_date_time_to_resolution', B + '__add_period_to_resolution',
                       'recognizers_date_time.date_time.utilities:DateTimeFormatUtil.format_date', 'recognizers_date_time.date_time.utilities:DateTimeFormatUtil.format_time',
                       'recognizers_date_time.date_time.utilities:DateTimeFormatUtil.format_date_time']),
           Ob('O11.3-validity-guards', 'sx', 'harness.C11:h_safe_create', timeout=t,
              descr='safe_create_from_min_value / is_valid_date / is_valid_time: the given instant when it exists, the min-value marker otherwise',
              bounds='year 1..9999, month -1..14, day -1..33, hour -1..25, minute -1..61',
              encodes=['recognizers_date_time.date_time.utilities:DateUtils.safe_create_from_value', 'recognizers_date_time.date_time.utilities:DateUtils.is_valid_date',
                       'recognizers_date_time.date_time.utilities:DateUtils.is_valid_time'])]
    return obs
