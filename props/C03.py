from lib.driver import Ob

LEVEL = 'model_checking'
EXPLANATION = ('The real digit kernel BaseNumberParser._get_digital_value runs natively (symx) on numerals whose digits are symbolic, with every culture\'s real separator '
               'configuration; Decimal and its context are replaced by an exact proxy (harness/symdec.py) valid up to 15 digits, and the returned value must equal the '
               'number written for all digit values at once. CultureInfo.format is confirmed by CrossHair on symbolic decimal strings; the percentage parser by symx.')
ASSUMPTIONS = ['Decimal arithmetic at 15 significant digits is exact for numerals of at most 15 digits (model validated against real Decimal on random numerals per shape: O3.2v)',
               'shapes: plain / grouped with the culture\'s thousands mark / decimal with its decimal mark / grouped+decimal, optional leading "-", <= 15 digits, <= 6 fraction digits; '
               'for cultures that accept both conventions also grouped+decimal with the marks exchanged ("1.234,56" in en-us)',
               'grouped numerals do not start with 0']
OUTSIDE = ['which of several matches the regex engine prefers inside longer text (the language layer O3.1 only shows that a full match exists)', 'Chinese / Japanese numerals written with CJK characters (digit literals of zh/ja go through the same kernel and are covered)', 'recognition and stripping of the multiplier suffix itself (k, M ...; the kernel is checked with the multiplier as a parameter), fractions, powers',
           'sign words ("minus 5") and text restoration in BaseNumberParser.parse', 'numerals of more than 15 digits']
N = 'recognizers_number.number.parsers:'
CULTURES = ['en-us', 'es-es', 'es-mx', 'fr-fr', 'pt-br', 'de-de', 'it-it', 'nl-nl']


def shapes(tier):
    out = []
    plain = [1, 2, 3, 4, 7, 15] if tier == 'quick' else [1, 2, 3, 4, 5, 6, 7, 9, 10, 12, 15]
    for k in plain:
        out.append({'groups': [k], 'frac': 0})
    grouped = [[1, 3], [2, 3], [3, 3], [1, 3, 3], [3, 3, 3, 3, 3]] if tier == 'quick' else [[1, 3], [2, 3], [3, 3], [1, 3, 3], [2, 3, 3], [3, 3, 3], [1, 3, 3, 3], [3, 3, 3, 3], [3, 3, 3, 3, 3]]
    for g in grouped:
        out.append({'groups': g, 'frac': 0, 'grouped': 1})
    for f in ([1, 2, 3, 6] if tier == 'thorough' else [1, 2, 3]):
        out.append({'groups': [1], 'frac': f})
        out.append({'groups': [3], 'frac': f})
        out.append({'groups': [1, 3], 'frac': f, 'grouped': 1})
        out.append({'groups': [2, 3, 3], 'frac': f, 'grouped': 1})
    out += [dict(s, neg=1) for s in out]
    return out


MULTI = ['en-us', 'es-es', 'es-mx', 'fr-fr']     # is_multi_decimal_separator_culture (checked by the harness: a swap slice elsewhere is a harness error)


def swap_shapes(tier):
    """the other convention (both marks present, e.g. "1.234,56" read in en-us): grouped + decimal shapes with the marks exchanged"""
    return [dict(s, swap=1) for s in shapes(tier) if s.get('grouped') and s.get('frac') and len(s['groups']) > 1]


def obligations(tier):
    t = 120 if tier == 'quick' else 600
    cult = CULTURES if tier == 'thorough' else ['en-us', 'es-es', 'es-mx', 'fr-fr', 'de-de']
    def f13(s):
        # known-finding region F13: a signed integer with exactly one grouping mark after a three-digit group ("-250,000")
        return bool(s.get('neg') and s.get('grouped') and s['groups'] == [3, 3] and not s.get('frac'))
    sl = [{'culture': c, 'shape': s} for c in cult for s in shapes(tier) if not f13(s)]
    sl += [{'culture': c, 'shape': s} for c in cult if c in MULTI for s in swap_shapes(tier)]
    sl += [{'culture': c, 'shape': s} for c in ('zh-cn', 'ja-jp') for s in (shapes(tier) if tier == 'thorough' else shapes(tier)[::2]) if not f13(s)]
    # the multiplier a k/M/G/T suffix contributes (collected by _digit_number_parse) reaches the kernel as `power`
    pw = [s for s in shapes(tier) if s['groups'] in ([1], [3], [1, 3]) and s.get('frac', 0) in (0, 1, 2)]
    sl += [{'culture': c, 'shape': s, 'power': p} for c in cult for s in pw for p in ((1000, 10 ** 6) if tier == 'quick' else (1000, 10 ** 6, 10 ** 9, 10 ** 12))]
    kf = [{'culture': c, 'shape': s} for c in ('en-us', 'fr-fr', 'de-de') for s in shapes(tier) if f13(s)]
    obs = [Ob('O3.2-digital-value', 'sx', 'harness.C03:h_digital_value', twin='harness.C03:t_digital_value', slices=sl, timeout=t,
              descr='_get_digital_value returns exactly the number written (grouping and decimal marks of the culture, optional sign) for every digit assignment',
              bounds='all digit values of each shape (<= 15 digits); quick: 5 cultures + zh, ja (every second shape), thorough: 8 + zh, ja; suffix multiplier 1, 10^3, 10^6 (thorough 10^9, 10^12) on the short shapes', encodes=[N + 'BaseNumberParser._get_digital_value',
                                                                                                                N + 'BaseNumberParser.__skip_non_decimal_separator'],
              stubs=['Decimal / getcontext -> exact proxy (harness/symdec.py)', 'numeral text -> SymText/SymChar proxies']),
           Ob('O3.2-signed-single-group', 'sx', 'harness.C03:h_digital_value', slices=kf, timeout=t, finding='F13',
              descr='region F13: signed integer with one grouping mark after a three-digit group', encodes=[N + 'BaseNumberParser.__skip_non_decimal_separator']),
           Ob('O3.2v-model-validation', 'fn', 'harness.C03:validate_model', slices=[{'culture': c, 'shape': s} for c in ('en-us', 'es-es', 'fr-fr') for s in shapes('quick')[::3]],
              timeout=t, descr='validation (not a verdict): the real kernel with real Decimals agrees with the written number on random numerals of each shape'),
           Ob('O3.4-format', 'xh', 'harness.C03:h_format', slices=[{'culture': c} for c in (cult if tier == 'thorough' else ['en-us', 'es-es', 'fr-fr'])], timeout=max(t, 240),
              descr='CultureInfo.format: no grouping, the culture\'s decimal mark, no superfluous fraction zeros, same digits',
              bounds='decimal strings [-]d{1,4}[.d{0,3}] (symbolic)', encodes=['recognizers_number.culture:CultureInfo.format', 'recognizers_number.culture:CultureInfo.change_mark'],
              engine='CrossHair symbolic execution (symbolic str), z3 per path'),
           Ob('O3.5-percentage-parser', 'sx', 'harness.C03:h_percentage_parser', timeout=t,
              descr='BasePercentageParser: inner resolution + "%" exactly once; span/text of the whole percentage kept; the masked inner number is what is parsed',
              bounds='9 inner resolution strings x offsets 0..6 x with/without inner data', encodes=[N + 'BasePercentageParser.parse'])]
    L = 'harness.layouts:'
    kf = {('de-de', 'decimal-long'): 'F14', ('nl-nl', 'decimal-long'): 'F14', ('de-de', 'neg-decimal'): 'F15', ('nl-nl', 'neg-decimal'): 'F15', ('es-mx', 'grouped-n'): 'F16'}
    lays = ['plain', 'grouped-1', 'grouped-n', 'decimal-short', 'decimal-long', 'grouped-decimal', 'neg-plain', 'neg-decimal']
    main = [{'kind': 'number', 'culture': c, 'layout': l} for c in CULTURES for l in lays if (c, l) not in kf]
    obs.append(Ob('O3.1-language', 'fn', L + 'inclusion', slices=main, timeout=t,
                  descr='every numeral of the culture\'s grammar (plain, grouped, decimal, grouped decimal, negative) is fully matched by one of the patterns the culture\'s number extractor compiles',
                  bounds='unbounded over the layout language (<= 15 digits, <= 6 fraction digits, <= 4 groups); 8 cultures x 8 layouts minus the known-finding slices',
                  engine='z3 regular-expression solver on an over-approximating translation of the real pattern sources (assertions dropped)',
                  encodes=['recognizers_number.number.extractors:BaseNumberExtractor._generate_format_regex']))
    obs.append(Ob('O3.1-api-members', 'fn', L + 'api_members', slices=[dict(x, n=12 if tier == 'quick' else 80) for x in main], timeout=t,
                  descr='composition check: solver-generated numerals of each layout are recognised as one entity covering the literal with the number as value',
                  bounds='12 (thorough 80) z3 models per (culture, layout); validation of the composition, not a universal verdict'))
    for (c, l), fid in sorted(kf.items()):
        obs.append(Ob('O3.1-language-%s-%s' % (c, l), 'fn', L + 'inclusion', slices=[{'kind': 'number', 'culture': c, 'layout': l}], timeout=t, finding=fid,
                      descr='region of known finding %s' % fid))
    mc = ['en-us', 'en-in', 'es-es', 'es-mx', 'fr-fr', 'pt-br', 'de-de', 'it-it', 'nl-nl']
    obs.append(Ob('O3.6-multiplier-cut', 'fn', 'harness.C03:multiplier_cut', slices=[{'culture': c} for c in mc], timeout=t,
                  descr='the multiplier step of _digit_number_parse (finite, exhaustive over tokens x separator layouts x spacings; composes with O3.2, which decides _get_digital_value for all digits): for every multiplier token of the culture '
                        '(k, M, thousand, lakh, crore, mil, millions ...) behind a numeral of every layout, with 0..2 blanks, the literal\'s value is the bare numeral\'s value times the token\'s power, at parser level and through recognize_number',
                  bounds='15..23 tokens x 8 numerals x 3 spacings per culture; only texts the culture extracts as one literal are judged; German / Dutch digit+word compounds are finding F58',
                  encodes=['recognizers_number.number.parsers:BaseNumberParser._digit_number_parse']))
    obs.append(Ob('O3.7-cjk-digit-layouts', 'fn', 'harness.C03:cjk_digit_layouts', slices=[{'culture': 'zh-cn'}, {'culture': 'ja-jp'}], timeout=t,
                  descr='digit literals of zh-cn / ja-jp through the public API (small-scope enumeration over layouts, not a solver verdict): comma-grouped integers with 1..5 groups, optional sign and decimals, bare and inside a carrier: one number entity with that value '
                        '(the language layer O3.1 covers the eight alphabetic cultures; O3.2 decides the digit kernel for zh / ja)',
                  bounds='240 literals per culture', encodes=['recognizers_number.number.japanese.extractors:JapaneseIntegerExtractor.__init__', 'recognizers_number.number.chinese.extractors:ChineseIntegerExtractor.__init__']))
    obs.append(Ob('O3.6-known-compound', 'fn', 'harness.C03:multiplier_cut', slices=[{'culture': c, 'f58': 'only'} for c in ('de-de', 'nl-nl')], timeout=t, finding='F58',
                  descr='region of finding F58 (German / Dutch digit + multiplier word written together)'))
    obs.append(Ob('O3.6-witness-plural', 'fn', 'harness.witness:api_witness', slices=[{'w': 'F57'}], timeout=t, finding='F57', descr='API witness of the repaired F57 (1.234 millions): a reappearance is a violation'))
    return obs
