"""One obligation slice per process.

  python -m lib.worker run    <module:function> <kind> <timeout_s>      (slice in env VERIF_SLICE)
  python -m lib.worker replay <module:function> <kind> <cex-json>       (slice in env VERIF_SLICE)

kind 'xh' : <function> is a harness in CrossHair "asserts" style -- leading `assert`s are the
            preconditions (bounds, slice, excluded known-finding regions), everything after is the
            property.  The real /repo code is executed symbolically by CrossHair (z3 decides each
            path); "Confirmed over all paths" is the only thing reported as discharged.
kind 'fn' : <function>(slice, timeout) builds its own SMT queries (z3 regex / LIA / FP encodings
            regenerated from /repo) and returns a result dict; <function>__replay(slice, cex)
            replays a solver model on the real code.

Prints exactly one line starting with RESULT followed by a JSON object.
"""
import ast
import collections
import importlib
import inspect
import json
import os
import re
import sys
import time
import traceback

from lib import env

env.setup_paths()


def load(target):
    mod, fn = target.split(':')
    m = importlib.import_module(mod)
    return m, getattr(m, fn)


def leading_assert_end(fn):
    """Last source line (absolute) of the leading assert block of a harness function."""
    src, first = inspect.getsourcelines(fn)
    import textwrap
    tree = ast.parse(textwrap.dedent(''.join(src)))
    fdef = tree.body[0]
    end = fdef.lineno
    body = fdef.body
    i = 0
    if body and isinstance(body[0], ast.Expr) and isinstance(getattr(body[0], 'value', None), ast.Constant) \
            and isinstance(body[0].value.value, str):
        end = body[0].end_lineno
        i = 1
    for st in body[i:]:
        if isinstance(st, ast.Assert):
            end = st.end_lineno
        else:
            break
    return first + end - 1


def parse_call(message, fn):
    """Extract the concrete arguments from CrossHair's '... when calling f(1, x=2)' message."""
    m = re.search(r'when calling (\w+)\((.*)\)', message, re.S)
    if not m:
        return None
    try:
        call = ast.parse('f(' + m.group(2) + ')', mode='eval').body
        args = [ast.literal_eval(a) for a in call.args]
        kwargs = {k.arg: ast.literal_eval(k.value) for k in call.keywords}
        sig = inspect.signature(fn)
        ba = sig.bind(*args, **kwargs)
        return dict(ba.arguments)
    except Exception as e:  # noqa
        return {'__unparsed__': m.group(2), '__err__': repr(e)}


def run_xh(fn, timeout):
    from crosshair.core_and_libs import analyze_function, run_checkables, MessageType
    from crosshair.options import AnalysisOptionSet, AnalysisKind
    stats = collections.Counter()
    opts = AnalysisOptionSet(analysis_kind=[AnalysisKind.asserts], per_condition_timeout=float(timeout),
                             per_path_timeout=float(timeout), report_all=True,
                             max_uninteresting_iterations=10 ** 9, stats=stats)
    t = time.time()
    checkables = analyze_function(fn, opts)
    if not checkables:
        return {'state': 'error', 'detail': 'CrossHair found no checkable condition in harness'}
    msgs = run_checkables(checkables)
    wall = time.time() - t
    res = {'paths': stats.get('num_paths', 0), 'solver_s': round(wall, 3), 'engine': 'crosshair+z3'}
    states = [m.state for m in msgs]
    bad = [m for m in msgs if m.state in (MessageType.POST_FAIL, MessageType.EXEC_ERR, MessageType.POST_ERR)]
    if bad:
        m = bad[0]
        res.update(state='counterexample', detail=m.message[:2000], cex=parse_call(m.message, fn), traceback=(m.traceback or '')[-1500:])
    elif any(s in (MessageType.SYNTAX_ERR, MessageType.IMPORT_ERR) for s in states):
        res.update(state='error', detail='; '.join(m.message for m in msgs)[:2000])
    elif states and all(s == MessageType.CONFIRMED for s in states):
        res.update(state='discharged', detail='Confirmed over all paths')
    elif any(s == MessageType.PRE_UNSAT for s in states):
        res.update(state='inconclusive', detail='unable to meet precondition')
    else:
        res.update(state='inconclusive', detail='; '.join(m.message for m in msgs)[:500] or 'not confirmed')
    return res


def replay_xh(fn, cex):
    """Run the harness natively (no CrossHair) on the concrete arguments."""
    if cex is None or '__unparsed__' in cex:
        return {'reproduced': False, 'detail': 'counterexample arguments could not be parsed: %r' % (cex,)}
    pre_end = leading_assert_end(fn)
    from lib.symx import PathAbort
    try:
        fn(**cex)
    except PathAbort:
        return {'reproduced': False, 'detail': 'precondition (assume) not met'}
    except AssertionError:
        tb = traceback.extract_tb(sys.exc_info()[2])
        mine = [f for f in tb if f.name == fn.__name__]
        if mine and mine[-1].lineno <= pre_end and len(tb) and tb[-1] is mine[-1]:
            return {'reproduced': False, 'detail': 'precondition not met at line %d' % mine[-1].lineno}
        return {'reproduced': True, 'detail': traceback.format_exc()[-1500:]}
    except Exception:  # noqa
        return {'reproduced': True, 'detail': traceback.format_exc()[-1500:]}
    return {'reproduced': False, 'detail': 'harness passed natively'}


def main():
    mode, target, kind, arg = sys.argv[1:5]
    sl = json.loads(os.environ.get('VERIF_SLICE', '{}'))
    t0 = time.time()
    os.environ['VERIF_ENGINE'] = kind if mode == 'run' else 'native'
    try:
        m, fn = load(target)
        if mode == 'run':
            if kind == 'xh':
                res = run_xh(fn, float(arg))
            elif kind == 'sx':
                from lib import symx
                symx.selftest()
                res = symx.explore(fn, float(arg))
            else:
                res = fn(sl, float(arg))
        else:
            cex = json.loads(arg)
            if kind in ('xh', 'sx'):
                res = replay_xh(fn, cex)
            else:
                res = getattr(m, fn.__name__ + '__replay')(sl, cex)
    except env.HarnessError as e:
        res = {'state': 'error', 'detail': 'harness error: %s' % e}
    except Exception:  # noqa
        res = {'state': 'error', 'detail': traceback.format_exc()[-3000:]}
    res['wall'] = round(time.time() - t0, 3)
    sys.stdout.flush()
    print('\nRESULT ' + json.dumps(res, default=repr))


if __name__ == '__main__':
    main()
