"""Driver: runs the obligations of one property, combines verdicts, writes evidence.

Exit status: 0 = nothing violated in what was explored (inconclusive obligations are listed and
never counted as discharged); 1 = at least one solver counterexample that reproduced on the real
code and is not a listed known finding (prints `VIOLATION property=<id> replay=<path>`);
2 = harness error (wrong module copy, vacuous harness, encoder validation failure, a solver
counterexample that does not reproduce on the real code).
"""
import argparse
import concurrent.futures as cf
import hashlib
import importlib
import json
import os
import subprocess
import sys
import time
from dataclasses import dataclass, field
from typing import Optional

from lib import env

env.setup_paths()

PY = os.path.join(env.VERIF, '.venv', 'bin', 'python')
NCPU = int(os.environ.get('VERIF_JOBS', '0')) or min(16, os.cpu_count() or 4)


REPLAY_CAP = 6          # reproduced violations reported per obligation; further solver counterexamples of that obligation are listed, not replayed


@dataclass
class Ob:
    name: str
    kind: str                      # 'xh' (CrossHair on real code) | 'fn' (direct SMT encoding)
    target: str                    # 'harness.Cxx:func'
    slices: list = field(default_factory=lambda: [{}])
    timeout: float = 60.0
    twin: Optional[str] = None     # reachability twin (must be violated)
    descr: str = ''
    bounds: str = ''
    encodes: list = field(default_factory=list)   # 'module:Qual.name' of /repo functions encoded
    stubs: list = field(default_factory=list)
    finding: Optional[str] = None  # id in known_findings.json: this obligation searches the known region
    both_policies: bool = False    # run under both datedelta policies; report only agreeing verdicts
    engine: str = ''


def resolve(spec):
    mod, q = spec.split(':')
    m = sys.modules.get(mod) or importlib.import_module(mod)
    # beware star-import shadowing: always take the module from sys.modules by full name
    m = sys.modules[mod]
    o = m
    for part in q.split('.'):
        if part.startswith('__') and not part.endswith('__') and isinstance(o, type):
            part = '_' + o.__name__.lstrip('_') + part
        o = getattr(o, part)
    return o


def run_worker(mode, ob, sl, arg, timeout, extra_env=None):
    e = dict(os.environ)
    e['VERIF_SLICE'] = json.dumps(sl)
    e['PYTHONDONTWRITEBYTECODE'] = '1'
    e['PYTHONHASHSEED'] = '0'
    e['PYTHONPATH'] = env.VERIF
    e.pop('VERIF_DATEDELTA_POLICY', None)
    if extra_env:
        e.update(extra_env)
    cmd = [PY, '-W', 'ignore', '-m', 'lib.worker', mode, ob.target if mode != 'twin' else ob.twin, ob.kind, str(arg)]
    if mode == 'twin':
        cmd[5] = 'run'
    t = time.time()
    try:
        p = subprocess.run(cmd, cwd=env.VERIF, env=e, capture_output=True, text=True, timeout=timeout)
    except subprocess.TimeoutExpired:
        return {'state': 'inconclusive', 'detail': 'outer timeout %ss' % timeout, 'wall': round(time.time() - t, 2)}
    for line in reversed(p.stdout.splitlines()):
        if line.startswith('RESULT '):
            try:
                return json.loads(line[7:])
            except ValueError:
                break
    return {'state': 'error', 'detail': 'worker gave no result (rc=%s): %s' % (p.returncode, (p.stderr or p.stdout)[-1500:]),
            'wall': round(time.time() - t, 2)}


def load_known():
    p = os.path.join(env.VERIF, 'known_findings.json')
    if not os.path.exists(p):
        return {}
    with open(p) as f:
        data = json.load(f)
    return {k['id']: k for k in data.get('findings', [])}


def main(argv=None):
    ap = argparse.ArgumentParser()
    ap.add_argument('prop')
    ap.add_argument('--tier', default=os.environ.get('VERIF_TIER', 'quick'), choices=['quick', 'thorough'])
    ap.add_argument('--replay')
    ap.add_argument('--only', help='comma-separated obligation names')
    ap.add_argument('--no-evidence', action='store_true')
    a = ap.parse_args(argv)
    seed = int(os.environ.get('VERIF_SEED', '0') or 0)
    pid = a.prop
    pm = importlib.import_module('props.' + pid)

    if a.replay:
        with open(a.replay) as f:
            r = json.load(f)
        ob = Ob(name=r['obligation'], kind=r['kind'], target=r['target'])
        res = run_worker('replay', ob, r['slice'], json.dumps(r['cex']), 600, r.get('env'))
        print(json.dumps(res, indent=1))
        if res.get('reproduced'):
            print('VIOLATION property=%s replay=%s' % (pid, a.replay))
            return 1
        print('replay did not reproduce')
        return 0

    t0 = time.time()
    os.environ['VERIF_RUN_ID'] = '%d_%d' % (os.getpid(), int(t0))
    if a.tier == 'thorough':
        os.environ.setdefault('VERIF_Z3_TIMEOUT_MS', '90000')      # the thorough tier may wait longer for a single query
    obs = pm.obligations(a.tier)
    if a.only:
        keep = set(a.only.split(','))
        obs = [o for o in obs if o.name in keep]
    known = load_known()
    rc = 0
    lines = []
    ev_obs = []
    n_slices = n_discharged = n_inconcl = n_viol = n_known = 0
    replayed_violations, capped = {}, {}
    paths_total = 0
    queries_total = 0
    solver_s = 0.0
    samples = []
    harness_errors = []
    funcs = {}
    twin_results = 0
    seen_known = set()

    POL = [{'VERIF_DATEDELTA_POLICY': 'rollover'}, {'VERIF_DATEDELTA_POLICY': 'clip'}]

    with cf.ThreadPoolExecutor(max_workers=NCPU) as pool:
        futs = {}
        order = list(range(len(obs)))
        for oi in order:
            ob = obs[oi]
            if ob.twin:
                futs[pool.submit(run_worker, 'twin', ob, ob.slices[0], min(ob.timeout, 60), min(ob.timeout, 60) + 60)] = (oi, 'twin', None)
            idx = list(range(len(ob.slices)))
            if seed:
                import random
                random.Random(seed + oi).shuffle(idx)
            for si in idx:
                envs = POL if ob.both_policies else [None]
                for ei, ee in enumerate(envs):
                    futs[pool.submit(run_worker, 'run', ob, ob.slices[si], ob.timeout, ob.timeout * 1.5 + 60, ee)] = (oi, si, ei)
        results = {}
        for f in cf.as_completed(futs):
            results[futs[f]] = f.result()

    for oi, ob in enumerate(obs):
        for spec in ob.encodes:
            try:
                o = resolve(spec)
                funcs[spec] = env.encoded(o)[0]
            except env.HarnessError as e:
                harness_errors.append('%s: %s' % (ob.name, e))
            except Exception as e:  # noqa
                harness_errors.append('%s: cannot resolve encoded function %s: %r' % (ob.name, spec, e))
        rec = {'obligation': ob.name, 'engine': ob.engine or {'xh': 'CrossHair symbolic execution of the real function, z3 per path',
                                                                'sx': 'symx symbolic execution of the real code on z3-backed proxies (lib/symx.py), z3 per branch',
                                                                'fn': 'direct z3 encoding regenerated from /repo source, or a labelled audit / API composition check'}.get(ob.kind, ob.kind),
               'target': ob.target, 'description': ob.descr, 'bounds': ob.bounds, 'functions': ob.encodes, 'stubs_and_assumptions': ob.stubs,
               'slices': len(ob.slices), 'discharged': 0, 'inconclusive': [], 'counterexamples': [], 'paths': 0, 'queries': 0, 'solver_s': 0.0}
        if ob.twin:
            tr = results.get((oi, 'twin', None), {})
            rec['twin'] = tr.get('state')
            if tr.get('state') == 'counterexample':
                twin_results += 1
            else:
                harness_errors.append('%s: reachability twin not violated (%s: %s) -- harness may be vacuous' % (ob.name, tr.get('state'), str(tr.get('detail'))[:300]))
        for si, sl in enumerate(ob.slices):
            n_slices += 1
            envs = POL if ob.both_policies else [None]
            rs = [results[(oi, si, ei)] for ei in range(len(envs))]
            for r in rs:
                rec['paths'] += r.get('paths', 0) or 0
                rec['queries'] += r.get('queries', 0) or 0
                rec['solver_s'] += r.get('solver_s', 0) or 0
            states = [r.get('state') for r in rs]
            if 'error' in states:
                r = rs[states.index('error')]
                harness_errors.append('%s slice %s: %s' % (ob.name, json.dumps(sl), str(r.get('detail'))[-1200:]))
                continue
            if ob.both_policies and 'counterexample' in states and not all(s == 'counterexample' for s in states):
                lines.append('ENV-DEPENDENT obligation=%s slice=%s (verdict differs between datedelta policies; outside the claim)' % (ob.name, json.dumps(sl)))
                rec['inconclusive'].append({'slice': sl, 'why': 'env-dependent (datedelta policy)'})
                n_inconcl += 1
                continue
            if all(s == 'discharged' for s in states):
                rec['discharged'] += 1
                if ob.finding:
                    pass  # known defect no longer present in its region: nothing to print
                else:
                    n_discharged += 1
                if len(samples) < 12 and rs[0].get('sample') is not None:
                    samples.append({'obligation': ob.name, 'slice': sl, 'sample': rs[0].get('sample')})
                continue
            if 'counterexample' in states:
                ei = states.index('counterexample')
                r = rs[ei]
                if not ob.finding and replayed_violations.get(ob.name, 0) >= REPLAY_CAP:
                    # enough reproduced violations of this obligation have been reported; further solver counterexamples are not replayed
                    n_inconcl += 1
                    rec['inconclusive'].append({'slice': sl, 'why': 'solver counterexample not replayed (replay cap %d reached for this obligation)' % REPLAY_CAP, 'cex': r.get('cex')})
                    capped[ob.name] = capped.get(ob.name, 0) + 1
                    continue
                rp = run_worker('replay', ob, sl, json.dumps(r.get('cex')), 600, envs[ei])
                if not rp.get('reproduced'):
                    harness_errors.append('%s slice %s: solver counterexample %s did not reproduce on the real code: %s' % (
                        ob.name, json.dumps(sl), json.dumps(r.get('cex'), default=repr)[:400], str(rp.get('detail'))[:600]))
                    continue
                cexrec = {'slice': sl, 'cex': r.get('cex'), 'detail': str(r.get('detail'))[:600], 'replay_detail': str(rp.get('detail'))[-600:]}
                rec['counterexamples'].append(cexrec)
                if ob.finding:
                    if ob.finding in known and known[ob.finding].get('status') == 'open':
                        n_known += 1
                        if ob.finding in seen_known:
                            continue
                        seen_known.add(ob.finding)
                        lines.append('KNOWN-FINDING: property=%s %s [%s] witness=%s' % (pid, known[ob.finding]['what'], ob.finding, json.dumps(r.get('cex'), default=repr)[:200]))
                        continue
                h = hashlib.sha256(json.dumps([ob.name, sl, r.get('cex')], sort_keys=True, default=repr).encode()).hexdigest()[:10]
                d = os.path.join(env.VERIF, 'replays', pid)
                os.makedirs(d, exist_ok=True)
                path = os.path.join(d, '%s_%s.json' % (ob.name.replace('/', '_'), h))
                with open(path, 'w') as f:
                    json.dump({'property': pid, 'obligation': ob.name, 'kind': ob.kind, 'target': ob.target, 'slice': sl,
                               'env': envs[ei], 'cex': r.get('cex'), 'detail': r.get('detail'), 'replay_detail': rp.get('detail'),
                               'how': './check %s --replay %s' % (pid, path)}, f, indent=1, default=repr)
                n_viol += 1
                replayed_violations[ob.name] = replayed_violations.get(ob.name, 0) + 1
                lines.append('VIOLATION property=%s replay=%s' % (pid, path))
                lines.append('  obligation=%s slice=%s cex=%s' % (ob.name, json.dumps(sl), json.dumps(r.get('cex'), default=repr)[:400]))
                lines.append('  ' + str(rp.get('detail')).strip().splitlines()[-1][:300] if rp.get('detail') else '')
                continue
            # inconclusive
            n_inconcl += 1
            r = rs[[s != 'discharged' for s in states].index(True)]
            rec['inconclusive'].append({'slice': sl, 'why': str(r.get('detail'))[:200]})
            lines.append('INCONCLUSIVE obligation=%s slice=%s (%s)' % (ob.name, json.dumps(sl), str(r.get('detail'))[:120]))
        paths_total += rec['paths']
        queries_total += rec['queries']
        solver_s += rec['solver_s']
        rec['solver_s'] = round(rec['solver_s'], 2)
        ev_obs.append(rec)
        if len(samples) < 12:
            samples.append({'obligation': ob.name, 'target': ob.target, 'first_slice': ob.slices[0], 'bounds': ob.bounds})

    # scratch files shared by the workers of this run
    import glob
    import tempfile
    for f in glob.glob(os.path.join(tempfile.gettempdir(), 'verif_*_%s.json*' % os.environ['VERIF_RUN_ID'])):
        try:
            os.remove(f)
        except OSError:
            pass
    for ln in lines:
        print(ln)
    for name, k in capped.items():
        print('NOTE obligation=%s: %d further solver counterexamples not replayed (cap %d); they are listed as inconclusive in the evidence' % (name, k, REPLAY_CAP))
    for he in harness_errors:
        print('HARNESS-ERROR ' + he)
    wall = time.time() - t0
    summary = 'property=%s tier=%s obligations=%d slices=%d discharged=%d inconclusive=%d known=%d violations=%d harness_errors=%d wall=%.1fs' % (
        pid, a.tier, len(obs), n_slices, n_discharged, n_inconcl, n_known, n_viol, len(harness_errors), wall)
    print(summary)
    if n_viol:
        rc = 1
    elif harness_errors:
        rc = 2

    if not a.no_evidence and not a.only:
        evaluations = paths_total + queries_total
        ev = {
            'property_id': pid, 'tier': a.tier, 'seed': seed, 'level': getattr(pm, 'LEVEL', 'model_checking'),
            'coverage': {
                'evaluations': max(evaluations, 1),
                'distinct_nontrivial': n_discharged + n_known + n_viol,
                'rule': 'an evaluation is one symbolic path explored by CrossHair (each decided by z3) or one SMT query posed by a direct '
                        'encoding; a case is one (obligation, slice) pair -- a disjoint part of the symbolic input space -- and it is counted as '
                        'distinct and non-trivial only when the solver finished it: every path confirmed / every query unsat (discharged), or a '
                        'counterexample that reproduced on the real code. Inconclusive slices (time-out, unknown) are not counted.',
                'samples': samples[:12],
                'obligations': n_slices, 'discharged': n_discharged, 'inconclusive': n_inconcl,
                'known_findings_reproduced': n_known, 'symbolic_paths': paths_total, 'smt_queries': queries_total,
                'solver_s': round(solver_s, 2), 'reachability_twins_violated': twin_results,
                'functions_encoded': list(funcs.values()),
                'per_obligation': ev_obs,
                'explanation': getattr(pm, 'EXPLANATION', ''),
                'exhaustive': False,
                'outside_the_claim': getattr(pm, 'OUTSIDE', []),
                'harness_errors': harness_errors,
            },
            'assumptions': getattr(pm, 'ASSUMPTIONS', []),
            'wall_s': round(wall, 2), 'violations': n_viol,
        }
        os.makedirs(os.path.join(env.VERIF, 'evidence'), exist_ok=True)
        with open(os.path.join(env.VERIF, 'evidence', pid + '.json'), 'w') as f:
            json.dump(ev, f, indent=1, default=repr)
    return rc


if __name__ == '__main__':
    sys.exit(main())
