"""Path set-up and provenance helpers shared by every check.

Everything under verification is imported from /repo's *current working tree* (never from the PyPI
copies in /venv's site-packages); `assert_repo` turns a wrong copy into a harness error.
"""
import hashlib
import inspect
import os
import sys
import warnings

REPO = os.environ.get('VERIF_REPO', '/repo')
VERIF = os.path.dirname(os.path.dirname(os.path.abspath(__file__)))
LIBS = ['recognizers-text', 'recognizers-number', 'recognizers-number-with-unit',
        'recognizers-date-time', 'recognizers-sequence', 'recognizers-choice',
        'recognizers-suite', 'datatypes-timex-expression']
GUARD = 'RECOGNIZERS_TEXT_VERIF'


class HarnessError(Exception):
    pass


def setup_paths():
    warnings.simplefilter('ignore')
    want = [os.path.join(VERIF, 'shims')] + [os.path.join(REPO, 'Python', 'libraries', l) for l in LIBS]
    for p in want:
        if p in sys.path:
            sys.path.remove(p)
    sys.path[:0] = want
    if VERIF not in sys.path:
        sys.path.insert(len(want), VERIF)
    os.environ.setdefault(GUARD, '1')
    sys.dont_write_bytecode = True


def assert_repo(*objs):
    """Every object (module, class, function) must come from the /repo working tree."""
    for o in objs:
        m = inspect.getmodule(o) if not inspect.ismodule(o) else o
        f = getattr(m, '__file__', None) or ''
        if not os.path.abspath(f).startswith(os.path.abspath(REPO) + os.sep):
            raise HarnessError('module %r is loaded from %r, not from %s' % (getattr(m, '__name__', m), f, REPO))


def src_hash(obj):
    try:
        src = inspect.getsource(obj)
    except (OSError, TypeError):
        return None
    return hashlib.sha256(src.encode()).hexdigest()[:16]


def qualname(obj):
    m = getattr(obj, '__module__', None) or ''
    q = getattr(obj, '__qualname__', None) or getattr(obj, '__name__', repr(obj))
    return (m + '.' + q) if m else q


def encoded(*objs):
    """Provenance record for the functions a check encodes: qualified name, file, source hash."""
    out = []
    for o in objs:
        assert_repo(o)
        try:
            f = inspect.getsourcefile(o)
            line = inspect.getsourcelines(o)[1]
        except (OSError, TypeError):
            f, line = None, None
        out.append({'function': qualname(o), 'file': f, 'line': line, 'sha256_16': src_hash(o)})
    return out
