"""symx -- a small symbolic executor for the real Python code, with z3 as the decision procedure.

The function under test is *executed natively*; its integer/boolean/date inputs are proxy objects that
carry z3 terms.  Every branch on a proxy (`if`, `and`, `min`, comparison used as a condition, an index
or range bound that must be concrete) asks z3 which outcomes are feasible under the current path
condition; feasible alternatives are explored by deterministic re-execution (decision trail), so the
set of explored paths covers every input within the stated bounds.  An exception escaping on a feasible
path (AssertionError of the harness, or anything raised by the code) is a counterexample: the solver's
model for that path gives concrete inputs, which the driver replays on the real code without proxies.

What is modelled (and therefore trusted): Python int arithmetic as z3 Int (exact), floor division /
modulo by positive concrete constants, proleptic Gregorian calendar (datetime/timedelta) as day number +
second-of-day with year/month/day tied to the day number by the standard civil-calendar formula.
Everything else the code does (control flow, list/dict/str handling, formatting glue) is the real code.
"""
import inspect
import sys
import time
import traceback

import z3
from decimal import Decimal as _Decimal


import os as _os
Z3_TIMEOUT_MS = int(_os.environ.get('VERIF_Z3_TIMEOUT_MS', '20000'))      # per-query limit; an expired query is 'unknown' -> inconclusive


class PathAbort(BaseException):
    """infeasible assumption / precondition not met: the path is discarded"""


class Budget(BaseException):
    pass


class NonDeterministic(Exception):
    """the harness asked different questions when re-executed with the same decisions: the exploration would be meaningless"""


class Engine:
    def __init__(self, timeout=60.0, max_paths=200000):
        self.solver = z3.Solver()
        self.solver.set('timeout', Z3_TIMEOUT_MS)
        self.timeout = timeout
        self.max_paths = max_paths
        self.t0 = time.time()
        self.queries = 0
        self.solver_s = 0.0
        self.paths = 0
        self.unknowns = 0
        self.prefix = []
        self.trail = []
        self.pending = []
        self.nvars = 0
        self.inputs = []
        self.depth = 0
        self.model = None
        self.inconclusive = False
        self.bounds = {}
        self.undecided_equalities = 0
        self.subs = []
        self.dm_cache = {}

    # -- solver access --------------------------------------------------------------------------
    def _check(self, *extra):
        if time.time() - self.t0 > self.timeout:
            raise Budget()
        t = time.time()
        r = self.solver.check(*extra)
        self.solver_s += time.time() - t
        self.queries += 1
        if r == z3.unknown:
            self.unknowns += 1
        return r

    def fresh(self, name=None):
        self.nvars += 1
        return z3.Int('%s!%d' % (name or 'v', self.nvars))

    def add(self, cond):
        self.solver.add(cond)
        self.model = None

    # -- branching ------------------------------------------------------------------------------
    def _next(self, kind):
        """the recorded decision to replay at this point, or None when exploring new ground.  The decision trail is only valid if the
        re-execution asks the same kind of question at the same point; anything else means the harness is not deterministic."""
        i = len(self.trail)
        if i < len(self.prefix):
            ent = self.prefix[i]
            if ent[0] != kind:
                raise NonDeterministic('replay expected a %r decision, the program asked for %r' % (ent[0], kind))
            return ent
        return None

    def branch(self, cond):
        """decide a symbolic condition: returns a Python bool, forking when both outcomes are feasible"""
        cond = z3.simplify(_subst(cond))
        if z3.is_true(cond):
            return True
        if z3.is_false(cond):
            return False
        ent = self._next('b')
        if ent is not None:
            d = ent[1]
            self.trail.append(ent)
            self.solver.add(cond if d else z3.Not(cond))
            _learn_bound(self, cond, d)
            self.model = None
            return d
        # one solver query per branch: a model of the current path condition already witnesses one of the two outcomes
        m = self.model
        if m is None:
            r = self._check()
            if r != z3.sat:
                if r == z3.unknown:
                    self.inconclusive = True
                raise PathAbort()
            m = self.model = self.solver.model()
        here = z3.is_true(m.eval(cond, model_completion=True))
        other = z3.Not(cond) if here else cond
        ro = self._check(other)
        if ro == z3.unknown:
            self.inconclusive = True
        if ro == z3.sat:
            # both outcomes feasible: follow True now, queue False
            self.pending.append(self.trail + [('b', False)])
            d = True
            if not here:
                self.model = self.solver.model()      # the model just found satisfies path and cond
        else:
            d = here
        self.trail.append(('b', d))
        self.solver.add(cond if d else z3.Not(cond))
        _learn_bound(self, cond, d)
        return d

    def quick_equal(self, a, b, ms=400):
        """three-valued equality of two int terms under the path condition with a small solver budget:
        True (always equal) / False (never equal) / None (both possible, or undecided within the budget -> counted).
        The outcome is recorded in the decision trail so that re-executions see the same answer (a time-out is not reproducible)."""
        c = z3.simplify(_subst(a == b))
        if z3.is_true(c):
            return True
        if z3.is_false(c):
            return False
        ent = self._next('q')
        if ent is not None:
            self.trail.append(ent)
            return ent[1]
        self.solver.set('timeout', ms)
        try:
            res = None
            r1 = self._check(c)
            if r1 == z3.unsat:
                res = False
            else:
                r2 = self._check(z3.Not(c))
                if r2 == z3.unsat:
                    res = True
                elif r1 == z3.unknown or r2 == z3.unknown:
                    self.undecided_equalities += 1
                    self.unknowns -= (r1 == z3.unknown) + (r2 == z3.unknown)
            self.trail.append(('q', res))
            return res
        finally:
            self.solver.set('timeout', Z3_TIMEOUT_MS)

    def concretize(self, term):
        """pick a concrete value for an int term, forking over the alternatives.  The chosen value is part of the decision trail:
        a re-execution must ask about the *same* value (a fresh solver model could propose a different one)."""
        term = z3.simplify(_subst(term))
        if z3.is_int_value(term):
            return term.as_long()
        while True:
            ent = self._next('c')
            if ent is not None:
                v, d = ent[1], ent[2]
                self.trail.append(ent)
                self.solver.add(term == v if d else term != v)
                self.model = None
                if d:
                    return v
                continue
            if self.model is None:
                r = self._check()
                if r != z3.sat:
                    if r == z3.unknown:
                        self.inconclusive = True
                    raise PathAbort()
                self.model = self.solver.model()
            v = self.model.eval(term, model_completion=True).as_long()
            ro = self._check(term != v)
            if ro == z3.unknown:
                self.inconclusive = True
            if ro == z3.sat:
                self.pending.append(self.trail + [('c', v, False)])
            self.trail.append(('c', v, True))
            self.solver.add(term == v)
            return v

    def assume(self, cond):
        if isinstance(cond, SymBool):
            if not self.branch(cond.t):
                raise PathAbort()
        elif not cond:
            raise PathAbort()

    # -- inputs -----------------------------------------------------------------------------------
    def int(self, name, lo=None, hi=None):
        v = z3.Int(name)
        self.inputs.append((name, v, 'int'))
        if lo is not None:
            self.solver.add(v >= lo)
        if hi is not None:
            self.solver.add(v <= hi)
        return SymInt(v)

    def bool(self, name):
        v = z3.Bool(name)
        self.inputs.append((name, v, 'bool'))
        return SymBool(v)

    def model_inputs(self):
        r = self._check()
        if r != z3.sat:
            return None
        m = self.solver.model()
        out = {}
        for name, v, kind in self.inputs:
            val = m.eval(v, model_completion=True)
            out[name] = val.as_long() if kind == 'int' else z3.is_true(val)
        return out


ENGINE = None
RESET_HOOKS = []


# ---- light interval reasoning: lets x // k and x % k simplify when the path condition bounds x ------------------
def _learn_bound(e, cond, d):
    """record var <= c / var >= c facts from a decided condition (after z3.simplify normal form)"""
    neg = not d
    if z3.is_not(cond):
        cond, neg = cond.arg(0), not neg
    if z3.is_and(cond) and not neg:
        for c in cond.children():
            _learn_bound(e, c, True)
        return
    if cond.num_args() != 2:
        return
    a, b = cond.arg(0), cond.arg(1)
    k = cond.decl().kind()
    if z3.is_int_value(a) and z3.is_const(b) and not z3.is_int_value(b):
        a, b = b, a
        k = {z3.Z3_OP_LE: z3.Z3_OP_GE, z3.Z3_OP_GE: z3.Z3_OP_LE, z3.Z3_OP_LT: z3.Z3_OP_GT, z3.Z3_OP_GT: z3.Z3_OP_LT}.get(k, k)
    if not (z3.is_const(a) and a.decl().kind() == z3.Z3_OP_UNINTERPRETED and z3.is_int_value(b)):
        return
    c = b.as_long()
    name = a.decl().name()
    lo, hi = e.bounds.get(name, (None, None))
    if k == z3.Z3_OP_LE:
        if not neg:
            hi = c if hi is None else min(hi, c)
        else:
            lo = c + 1 if lo is None else max(lo, c + 1)
    elif k == z3.Z3_OP_GE:
        if not neg:
            lo = c if lo is None else max(lo, c)
        else:
            hi = c - 1 if hi is None else min(hi, c - 1)
    elif k == z3.Z3_OP_LT:
        if not neg:
            hi = c - 1 if hi is None else min(hi, c - 1)
        else:
            lo = c if lo is None else max(lo, c)
    elif k == z3.Z3_OP_GT:
        if not neg:
            lo = c + 1 if lo is None else max(lo, c + 1)
        else:
            hi = c if hi is None else min(hi, c)
    elif k == z3.Z3_OP_EQ and not neg:
        lo = c if lo is None else max(lo, c)
        hi = c if hi is None else min(hi, c)
    else:
        return
    e.bounds[name] = (lo, hi)


def split_multiple(t, c):
    """t == c * q + r with q collecting the summands whose constant coefficient is a multiple of c (exact identity;
    floor((c*q + r) / c) == q + floor(r / c) and (c*q + r) % c == r % c for c > 0)"""
    t = z3.simplify(_subst(t), som=True)
    parts = t.children() if t.decl().kind() == z3.Z3_OP_ADD else [t]
    q, r = [], []
    for p_ in parts:
        if z3.is_int_value(p_):
            v = p_.as_long()
            q.append(z3.IntVal(v // c))
            r.append(z3.IntVal(v % c))
        elif p_.decl().kind() == z3.Z3_OP_MUL and p_.num_args() == 2 and z3.is_int_value(p_.arg(0)) and p_.arg(0).as_long() % c == 0:
            q.append((p_.arg(0).as_long() // c) * p_.arg(1))
        else:
            r.append(p_)
    qq = z3.simplify(z3.Sum(q)) if q else z3.IntVal(0)
    rr = z3.simplify(z3.Sum(r)) if r else z3.IntVal(0)
    return qq, rr


def interval(t):
    """(lo, hi) of an int term from the recorded variable bounds; None = unbounded"""
    e = ENGINE
    if z3.is_int_value(t):
        v = t.as_long()
        return v, v
    k = t.decl().kind()
    if k == z3.Z3_OP_UNINTERPRETED and t.num_args() == 0:
        return e.bounds.get(t.decl().name(), (None, None)) if e else (None, None)
    ch = [interval(c) for c in t.children()]
    if k == z3.Z3_OP_ADD:
        lo = sum(c[0] for c in ch) if all(c[0] is not None for c in ch) else None
        hi = sum(c[1] for c in ch) if all(c[1] is not None for c in ch) else None
        return lo, hi
    if k == z3.Z3_OP_SUB and len(ch) == 2:
        lo = ch[0][0] - ch[1][1] if ch[0][0] is not None and ch[1][1] is not None else None
        hi = ch[0][1] - ch[1][0] if ch[0][1] is not None and ch[1][0] is not None else None
        return lo, hi
    if k == z3.Z3_OP_UMINUS:
        return (-ch[0][1] if ch[0][1] is not None else None, -ch[0][0] if ch[0][0] is not None else None)
    if k == z3.Z3_OP_MUL and len(ch) == 2 and ch[0][0] is not None and ch[0][0] == ch[0][1]:
        c = ch[0][0]
        lo, hi = ch[1]
        if c >= 0:
            return (c * lo if lo is not None else None, c * hi if hi is not None else None)
        return (c * hi if hi is not None else None, c * lo if lo is not None else None)
    if k == z3.Z3_OP_MOD and len(ch) == 2 and ch[1][0] is not None and ch[1][0] == ch[1][1] and ch[1][0] > 0:
        m = ch[1][0]
        if ch[0][0] is not None and ch[0][1] is not None and ch[0][0] >= 0 and ch[0][1] < m:
            return ch[0]
        return 0, m - 1
    if k == z3.Z3_OP_IDIV and len(ch) == 2 and ch[1][0] is not None and ch[1][0] == ch[1][1] and ch[1][0] > 0:
        m = ch[1][0]
        return (ch[0][0] // m if ch[0][0] is not None else None, ch[0][1] // m if ch[0][1] is not None else None)
    if k == z3.Z3_OP_ITE:
        a, b = ch[1], ch[2]
        lo = min(a[0], b[0]) if a[0] is not None and b[0] is not None else None
        hi = max(a[1], b[1]) if a[1] is not None and b[1] is not None else None
        return lo, hi
    return None, None


def eng():
    if ENGINE is None:
        raise RuntimeError('symx proxy used outside symx.explore')
    return ENGINE


def _t(x):
    """z3 term of an int-like value"""
    if isinstance(x, SymInt):
        return x.t
    if isinstance(x, bool):
        return z3.IntVal(int(x))
    if isinstance(x, int):
        return z3.IntVal(x)
    if isinstance(x, SymBool):
        return z3.If(x.t, z3.IntVal(1), z3.IntVal(0))
    if isinstance(x, float) and x.is_integer() and abs(x) < 2 ** 52:
        return z3.IntVal(int(x))          # an integral float (Time.from_seconds) combines with ints exactly in this range
    if isinstance(x, _Decimal) and x.is_finite() and x == x.to_integral_value():
        return z3.IntVal(int(x))          # an integral Decimal (a parsed TIMEX amount) mixes with ints exactly
    return None


def _subst(t):
    e = ENGINE
    if e is not None and e.subs:
        t = z3.substitute(t, *e.subs)
    return t


def divmod_vars(t, c):
    """(q, r) solver variables with t == c*q + r, 0 <= r < c  (the definition of floor division / modulo for c > 0).
    When t is `x + k` for an input or fresh variable x, x is from then on written as c*q + r - k in every later term, which
    turns facts such as ((x + k) - (x + k) % c) % c == 0 into syntactic identities instead of solver work."""
    e = eng()
    t = z3.simplify(_subst(t), som=True)
    key = (str(t), c)
    hit = e.dm_cache.get(key)
    if hit is not None:
        return hit
    q, r = e.fresh('q'), e.fresh('r')
    e.add(z3.And(t == c * q + r, r >= 0, r <= c - 1))
    e.bounds[r.decl().name()] = (0, c - 1)
    # substitution for a plain variable (+ constant)
    var, k = None, 0
    if z3.is_const(t) and t.decl().kind() == z3.Z3_OP_UNINTERPRETED:
        var = t
    elif t.decl().kind() == z3.Z3_OP_ADD and t.num_args() == 2:
        a, b = t.arg(0), t.arg(1)
        if z3.is_int_value(a) and z3.is_const(b) and b.decl().kind() == z3.Z3_OP_UNINTERPRETED:
            var, k = b, a.as_long()
        elif z3.is_int_value(b) and z3.is_const(a) and a.decl().kind() == z3.Z3_OP_UNINTERPRETED:
            var, k = a, b.as_long()
    if var is not None and not any(v.eq(var) for v, _ in e.subs):
        e.subs.append((var, c * q + r - k))
    e.dm_cache[key] = (q, r)
    return q, r


def lift(t):
    t = z3.simplify(_subst(t))
    if z3.is_int_value(t):
        return t.as_long()
    return SymInt(t)


def liftb(t):
    t = z3.simplify(_subst(t))
    if z3.is_true(t):
        return True
    if z3.is_false(t):
        return False
    return SymBool(t)


class SymBool:
    __slots__ = ('t',)

    def __init__(self, t):
        self.t = t

    def __bool__(self):
        return eng().branch(self.t)

    def __and__(self, o):
        return liftb(z3.And(self.t, _b(o)))

    __rand__ = __and__

    def __or__(self, o):
        return liftb(z3.Or(self.t, _b(o)))

    __ror__ = __or__

    def __invert__(self):
        return liftb(z3.Not(self.t))

    def __eq__(self, o):
        return liftb(self.t == _b(o))

    def __ne__(self, o):
        return liftb(self.t != _b(o))

    def __hash__(self):
        return hash(bool(self))

    def __int__(self):
        return int(bool(self))

    __index__ = __int__

    def __repr__(self):
        return 'SymBool(%s)' % self.t


def _b(o):
    if isinstance(o, SymBool):
        return o.t
    if isinstance(o, SymInt):
        return o.t != 0
    return z3.BoolVal(bool(o))


class SymInt:
    __slots__ = ('t',)

    def __init__(self, t):
        self.t = t

    # arithmetic
    def _bin(self, o, f):
        ot = _t(o)
        if ot is None:
            return NotImplemented
        return lift(f(self.t, ot))

    def __add__(self, o):
        return self._bin(o, lambda a, b: a + b)

    def __radd__(self, o):
        return self._bin(o, lambda a, b: b + a)

    def __sub__(self, o):
        return self._bin(o, lambda a, b: a - b)

    def __rsub__(self, o):
        return self._bin(o, lambda a, b: b - a)

    def __mul__(self, o):
        if isinstance(o, SymInt):
            o = int(o)          # keep the arithmetic linear: concretise one factor (forks)
        if isinstance(o, (str, list, tuple)):
            return o * int(self)
        return self._bin(o, lambda a, b: a * b)

    __rmul__ = __mul__

    def __neg__(self):
        return lift(-self.t)

    def __pos__(self):
        return self

    def __abs__(self):
        return -self if self < 0 else self

    def _divisor(self, o):
        if isinstance(o, SymInt):
            o = int(o)
        if not isinstance(o, int) or isinstance(o, bool):
            return None
        return o

    def __floordiv__(self, o):
        o = self._divisor(o)
        if o is None:
            return NotImplemented
        if o > 0:
            q, r = split_multiple(self.t, o)
            lo, hi = interval(r)
            if lo is not None and hi is not None and lo // o == hi // o:
                return lift(q + lo // o)         # the path condition pins the quotient of the remainder part
            q2, _r2 = divmod_vars(r, o)
            return lift(q + q2)
        return int(self) // o

    def __mod__(self, o):
        o = self._divisor(o)
        if o is None:
            return NotImplemented
        if o > 0:
            q, r = split_multiple(self.t, o)
            lo, hi = interval(r)
            if lo is not None and hi is not None and lo // o == hi // o:
                return lift(r - (lo // o) * o)
            _q2, r2 = divmod_vars(r, o)
            return lift(r2)
        return int(self) % o

    def __divmod__(self, o):
        return self // o, self % o

    def __rfloordiv__(self, o):
        return o // int(self)

    def __rmod__(self, o):
        if isinstance(o, str):
            return o % (int(self),)
        return o % int(self)

    def __truediv__(self, o):
        if isinstance(o, int) and not isinstance(o, bool) and o > 0:
            return SymQuot(self, o)
        return int(self) / o

    def __rtruediv__(self, o):
        return o / int(self)

    def __pow__(self, o):
        return int(self) ** o

    def __rpow__(self, o):
        return o ** int(self)

    def __lshift__(self, o):
        return self * (2 ** int(o))

    def __rshift__(self, o):
        return self // (2 ** int(o))

    # comparisons
    def _cmp(self, o, f):
        ot = _t(o)
        if ot is None:
            return NotImplemented
        return liftb(f(self.t, ot))

    def __lt__(self, o):
        return self._cmp(o, lambda a, b: a < b)

    def __le__(self, o):
        return self._cmp(o, lambda a, b: a <= b)

    def __gt__(self, o):
        return self._cmp(o, lambda a, b: a > b)

    def __ge__(self, o):
        return self._cmp(o, lambda a, b: a >= b)

    def __eq__(self, o):
        ot = _t(o)
        if ot is None:
            return False
        return liftb(self.t == ot)

    def __ne__(self, o):
        ot = _t(o)
        if ot is None:
            return True
        return liftb(self.t != ot)

    def __bool__(self):
        return eng().branch(self.t != 0)

    def __int__(self):
        return eng().concretize(self.t)

    __index__ = __int__

    def __hash__(self):
        return hash(int(self))

    def __float__(self):
        return float(int(self))

    def __round__(self, n=None):
        return self

    def __trunc__(self):
        return self

    def __floor__(self):
        return self

    def __ceil__(self):
        return self

    def __repr__(self):
        return 'SymInt(%s)' % self.t

    def __str__(self):
        return FORMAT_HOOK[0](self, '')

    def __format__(self, spec):
        return FORMAT_HOOK[0](self, spec)


class SymQuot:
    """`n / d` for a symbolic int n and a concrete positive int d, kept as an exact quotient.  Python computes a float here;
    the model is exact where the float computation is: floor() (|n| < 2**53 and d < 2**32 keep n/d away from the next integer
    by more than an ulp), comparisons, and multiplication back by a multiple of d when d divides n (then n/d is an integer
    float).  Anything else -- formatting, arithmetic with an inexact quotient -- ends the path as not encodable."""
    __slots__ = ('n', 'd')

    def __init__(self, n, d):
        self.n, self.d = n, d

    def __floor__(self):
        return self.n // self.d

    def __ceil__(self):
        return -((-self.n) // self.d)

    def _exact(self):
        if self.n % self.d == 0:
            return self.n // self.d
        raise NotImplementedError('symx: arithmetic on an inexact float quotient is not modelled')

    def __mul__(self, o):
        if isinstance(o, int) and not isinstance(o, bool) and o % self.d == 0:
            return self.n * (o // self.d)
        return self._exact() * o

    __rmul__ = __mul__

    def __add__(self, o):
        return self._exact() + o

    __radd__ = __add__

    def __sub__(self, o):
        return self._exact() - o

    def __rsub__(self, o):
        return o - self._exact()

    def __mod__(self, o):
        return self._exact() % o

    def __floordiv__(self, o):
        if isinstance(o, int) and not isinstance(o, bool) and o > 0:
            return self.n // (self.d * o)
        return self._exact() // o

    def _other(self, o):
        if isinstance(o, SymQuot):
            return self.n * o.d, o.n * self.d
        return self.n, o * self.d

    def __lt__(self, o):
        a, b = self._other(o)
        return a < b

    def __le__(self, o):
        a, b = self._other(o)
        return a <= b

    def __gt__(self, o):
        a, b = self._other(o)
        return a > b

    def __ge__(self, o):
        a, b = self._other(o)
        return a >= b

    def __eq__(self, o):
        a, b = self._other(o)
        return a == b

    def __ne__(self, o):
        a, b = self._other(o)
        return a != b

    def __hash__(self):
        return hash(self._exact())

    def __int__(self):
        return int(self.n // self.d) if self.n >= 0 else -int((-self.n) // self.d)

    def __float__(self):
        return int(self.n) / self.d

    def __str__(self):
        raise NotImplementedError('symx: formatting a float quotient is not modelled')

    __repr__ = __str__

    def __format__(self, spec):
        raise NotImplementedError('symx: formatting a float quotient is not modelled')


def _default_format(x, spec):
    return format(int(x), spec)


FORMAT_HOOK = [_default_format]


def assume(cond):
    """precondition anywhere in a harness (not only in the leading assert block): discards the path when it cannot hold"""
    if ENGINE is not None:
        ENGINE.assume(cond)
    elif not cond:
        raise PathAbort()


def give_up(reason=''):
    """the harness met something the models cannot represent on this path (not a property violation): the run ends inconclusive"""
    e = eng()
    e.inconclusive = True
    e.unknowns += 1
    raise PathAbort()


def is_sym(x):
    return isinstance(x, (SymInt, SymBool))


def ite(c, a, b):
    """if-then-else without forking (for oracles)"""
    if isinstance(c, SymBool):
        return lift(z3.If(c.t, _t(a), _t(b)))
    return a if c else b


# ---- exploration ------------------------------------------------------------------------------------
def _leading_assert_end(fn):
    import ast
    import textwrap
    src, first = inspect.getsourcelines(fn)
    tree = ast.parse(textwrap.dedent(''.join(src)))
    fdef = tree.body[0]
    end = fdef.lineno
    body = fdef.body
    i = 0
    if body and isinstance(body[0], ast.Expr) and isinstance(getattr(body[0], 'value', None), ast.Constant) \
            and isinstance(body[0].value.value, str):
        end = body[0].end_lineno
        i = 1
    for st in body[i:]:
        if isinstance(st, ast.Assert):
            end = st.end_lineno
        else:
            break
    return first + end - 1


def explore(fn, timeout=60.0, max_paths=200000, bounds=None):
    """Run harness `fn` (CrossHair "asserts" convention: leading asserts = preconditions) on symbolic
    arguments (one per annotated int/bool parameter).  Returns a result dict for lib.worker."""
    global ENGINE
    e = Engine(timeout, max_paths)
    ENGINE = e
    pre_end = _leading_assert_end(fn)
    code = fn.__code__
    sig = inspect.signature(fn)
    worklist = [[]]
    completed = 0
    aborted = 0
    inconclusive = False
    res = {}
    try:
        while worklist:
            prefix = worklist.pop()
            e.solver.reset()
            e.solver.set('timeout', Z3_TIMEOUT_MS)
            e.prefix, e.trail, e.pending = prefix, [], []
            e.nvars = 0
            e.inputs = []
            e.inconclusive = False
            e.model = None
            e.bounds = {}
            e.subs = []
            e.dm_cache = {}
            for hook in RESET_HOOKS:
                hook()
            args = {}
            for name, p in sig.parameters.items():
                if p.annotation is bool:
                    args[name] = e.bool(name)
                else:
                    args[name] = e.int(name)
            e.paths += 1
            if e.paths > max_paths:
                raise Budget()
            try:
                fn(**args)
                completed += 1
            except PathAbort:
                aborted += 1
            except (Budget, NonDeterministic):
                raise
            except BaseException as ex:  # noqa
                tb = traceback.extract_tb(sys.exc_info()[2])
                mine = [f for f in tb if f.name == code.co_name and f.filename == code.co_filename]
                is_pre = isinstance(ex, AssertionError) and mine and tb[-1] is mine[-1] and mine[-1].lineno <= pre_end
                if is_pre:
                    aborted += 1
                else:
                    cex = e.model_inputs()
                    if cex is None:
                        inconclusive = True
                    else:
                        res = {'state': 'counterexample', 'cex': cex,
                               'detail': '%s: %s' % (type(ex).__name__, str(ex)[:300]),
                               'traceback': ''.join(traceback.format_exception(type(ex), ex, ex.__traceback__))[-1800:]}
                        break
            if e.inconclusive:
                inconclusive = True
            worklist.extend(e.pending)
        else:
            if inconclusive:
                res = {'state': 'inconclusive', 'detail': 'solver returned unknown on %d queries' % e.unknowns}
            elif completed == 0:
                res = {'state': 'inconclusive', 'detail': 'no path satisfied the preconditions'}
            else:
                res = {'state': 'discharged', 'detail': 'all %d feasible paths explored, no violation' % completed}
    except NonDeterministic as nd:
        res = {'state': 'error', 'detail': 'harness is not deterministic under replay: %s' % nd}
    except Budget:
        res = {'state': 'inconclusive', 'detail': 'budget exhausted after %d paths (%.0fs)' % (e.paths, time.time() - e.t0)}
    finally:
        ENGINE = None
    res.update(undecided_equalities=e.undecided_equalities, paths=e.paths, completed_paths=completed, queries=e.queries, solver_s=round(e.solver_s, 3), engine='symx+z3')
    return res


def selftest():
    """the exploration must visit every point of a small product space exactly once (guards the decision-trail logic)"""
    seen = []

    def probe(a: int, b: int, c: bool):
        assume(0 <= a <= 3 and 0 <= b <= 2)
        x, y = int(b), int(a)
        if c:
            seen.append((y, x, True))
        else:
            seen.append((y, x, False))
    r = explore(probe, 30)
    want = sorted((a, b, c) for a in range(4) for b in range(3) for c in (False, True))
    if r.get('state') != 'discharged' or sorted(seen) != want:
        raise RuntimeError('symx selftest failed: %r; visited %d points (%d distinct) of %d' % (r.get('state'), len(seen), len(set(seen)), len(want)))
    # the exact-quotient model of `n / d` agrees with Python's float arithmetic on the operations it supports
    from math import floor as _floor
    bad = []

    def quot(n: int):
        assume(0 <= n <= 90000000)
        h = _floor(n / 3600000)
        mnt = _floor((n - h * 3600000) / 60000)
        sec = (n - h * 3600000 - mnt * 60000) / 1000
        if not (0 <= mnt <= 59 and 0 <= h <= 25):
            bad.append('range')
        if sec * 1000 + mnt * 60000 + h * 3600000 != n:
            bad.append('roundtrip')
        if not (sec < 60):
            bad.append('sec')
    r2 = explore(quot, 30)
    if r2.get('state') != 'discharged' or bad:
        raise RuntimeError('symx selftest (quotient) failed: %r %r' % (r2.get('state'), bad))
    for n in (0, 999, 1000, 3599999, 3600000, 86399000, 86400000 - 1):
        hh = _floor(n / 3600000)
        mm = _floor((n - hh * 3600000) / 60000)
        ss = (n - hh * 3600000 - mm * 60000) / 1000
        if (hh, mm) != (n // 3600000, n % 3600000 // 60000) or ss * 1000 + mm * 60000 + hh * 3600000 != n:
            raise RuntimeError('symx selftest: float quotient disagrees with the exact model at %d' % n)
    return len(seen)
