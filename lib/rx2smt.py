"""rx2smt -- translate the regular core of a regex used by the recognisers into a z3 regular-expression term.

The pattern string is read from the imported /repo resource module at run time and parsed with the stdlib sre parser
(after rewriting the .NET-style `(?<name>` to `(?P<name>`).  Supported: literals, character classes (ranges, negation
is refused), \\d (ASCII digits only -- the obligations that use it quantify over ASCII text), alternation,
concatenation, groups, bounded/unbounded repeats, IGNORECASE (letters are expanded to both cases).  Zero-width
assertions are only accepted at the two ends of the pattern (or of a top-level alternative), where they are stripped
and returned so that the caller can state them as constraints on the context; anywhere else the pattern is refused
(`NotEncodable`) -- silently dropping one would enlarge the language and make an inclusion claim unsound.
"""
import re

import z3

try:
    import re._parser as sre_parse
    import re._constants as C
except ImportError:  # pragma: no cover
    import sre_parse
    import sre_constants as C


class NotEncodable(Exception):
    pass


def _char(cp):
    return z3.Re(z3.StringVal(chr(cp)))


def _class(items, ignorecase):
    parts = []
    for op, av in items:
        if op is C.NEGATE:
            raise NotEncodable('negated class')
        if op is C.LITERAL:
            parts += _lit(av, ignorecase)
        elif op is C.RANGE:
            lo, hi = av
            parts.append(z3.Range(chr(lo), chr(hi)))
            if ignorecase:
                for a, b in (('a', 'z'), ('A', 'Z')):
                    l2, h2 = max(lo, ord(a)), min(hi, ord(b))
                    if l2 <= h2:
                        sw = (lambda c: chr(c).swapcase())
                        parts.append(z3.Range(sw(l2), sw(h2)))
        elif op is C.CATEGORY:
            if av is C.CATEGORY_DIGIT:
                parts.append(z3.Range('0', '9'))
            else:
                raise NotEncodable('category %s' % av)
        else:
            raise NotEncodable('class item %s' % op)
    return parts[0] if len(parts) == 1 else z3.Union(*parts)


def _lit(cp, ignorecase):
    ch = chr(cp)
    if ignorecase and ch.isalpha() and ch.swapcase() != ch and len(ch.swapcase()) == 1:
        return [_char(cp), _char(ord(ch.swapcase()))]
    return [_char(cp)]


def _seq(items, ignorecase, top=False):
    out = []
    items = list(items)
    for idx, (op, av) in enumerate(items):
        if op is C.LITERAL:
            ls = _lit(av, ignorecase)
            out.append(ls[0] if len(ls) == 1 else z3.Union(*ls))
        elif op is C.IN:
            out.append(_class(av, ignorecase))
        elif op is C.ANY:
            raise NotEncodable('dot')
        elif op is C.BRANCH:
            alts = [_seq(a, ignorecase) for a in av[1]]
            out.append(alts[0] if len(alts) == 1 else z3.Union(*alts))
        elif op is C.SUBPATTERN:
            out.append(_seq(av[3], ignorecase))
        elif op in (C.MAX_REPEAT, C.MIN_REPEAT):
            lo, hi, body = av
            b = _seq(body, ignorecase)
            if hi is C.MAXREPEAT:
                out.append(z3.Concat(*([b] * lo + [z3.Star(b)])) if lo > 0 else z3.Star(b))
                if lo > 0 and len([b] * lo + [z3.Star(b)]) == 1:
                    pass
            else:
                out.append(z3.Loop(b, lo, hi))
        elif op is C.AT:
            raise NotEncodable('assertion %s inside the pattern' % av)
        elif op in (C.ASSERT, C.ASSERT_NOT):
            raise NotEncodable('look-around inside the pattern')
        else:
            raise NotEncodable('construct %s' % op)
    if not out:
        return z3.Re(z3.StringVal(''))
    return out[0] if len(out) == 1 else z3.Concat(*out)


def prepare(pattern):
    return re.sub(r'\(\?<(?![=!])', '(?P<', pattern)


def strip_edges(items):
    """remove \\b / \\B / ^ / $ at the two ends of a sequence; returns (core items, leading assertions, trailing assertions)"""
    items = list(items)
    lead, trail = [], []
    while items and items[0][0] is C.AT:
        lead.append(items.pop(0)[1])
    while items and items[-1][0] is C.AT:
        trail.insert(0, items.pop()[1])
    return items, lead, trail


def translate(pattern, ignorecase=True):
    """-> (z3 regex of the core language, list of (lead assertions, trail assertions) per top-level alternative)"""
    tree = sre_parse.parse(prepare(pattern))
    items = list(tree)
    # unwrap a single outer group
    while len(items) == 1 and items[0][0] is C.SUBPATTERN:
        items = list(items[0][1][3])
    alts = [items]
    if len(items) == 1 and items[0][0] is C.BRANCH:
        alts = [list(a) for a in items[0][1][1]]
    res, edges = [], []
    for a in alts:
        a2 = list(a)
        while len(a2) == 1 and a2[0][0] is C.SUBPATTERN:
            a2 = list(a2[0][1][3])
        if len(a2) == 1 and a2[0][0] is C.BRANCH:
            for sub in a2[0][1][1]:
                core, lead, trail = strip_edges(sub)
                res.append(_seq(core, ignorecase))
                edges.append((lead, trail))
            continue
        core, lead, trail = strip_edges(a2)
        res.append(_seq(core, ignorecase))
        edges.append((lead, trail))
    return (res[0] if len(res) == 1 else z3.Union(*res)), edges


def equivalent(r1, r2, timeout_ms=60000, alphabet=None):
    """decide L(r1) == L(r2) (optionally over a restricted alphabet given as a z3 regex of single characters);
    returns ('unsat', None) when equal, ('sat', witness) with a string in exactly one of them, or ('unknown', None)"""
    s = z3.String('s')
    sol = z3.Solver()
    sol.set('timeout', timeout_ms)
    if alphabet is not None:
        sol.add(z3.InRe(s, z3.Star(alphabet)))
    sol.add(z3.Xor(z3.InRe(s, r1), z3.InRe(s, r2)))
    r = sol.check()
    if r == z3.sat:
        return 'sat', sol.model()[s].as_string()
    return str(r), None


def members(r, n, extra=None, timeout_ms=10000):
    """n distinct members of L(r) (solver models with blocking clauses), preferring different lengths"""
    s = z3.String('s')
    sol = z3.Solver()
    sol.set('timeout', timeout_ms)
    sol.add(z3.InRe(s, r))
    if extra is not None:
        sol.add(extra(s))
    out = []
    while len(out) < n and sol.check() == z3.sat:
        v = sol.model()[s].as_string()
        out.append(v)
        sol.add(s != z3.StringVal(v))
    return out
