"""rx2smt -- translate the regular core of a regex used by the recognisers into a z3 regular-expression term.

The pattern string is read from the imported /repo resource module at run time and parsed with the stdlib sre parser
(after rewriting the .NET-style `(?<name>` to `(?P<name>`).  Supported: literals, character classes (ranges, negation
is refused), \\d (ASCII digits only -- the obligations that use it quantify over ASCII text), alternation,
concatenation, groups, bounded/unbounded repeats, IGNORECASE (letters are expanded to both cases).  Zero-width
assertions are only accepted at the two ends of the pattern (or of a top-level alternative), where they are stripped
and returned so that the caller can state them as constraints on the context; anywhere else the pattern is refused
(`NotEncodable`) -- silently dropping one would enlarge the language and make an inclusion claim unsound.
"""
import re

import z3

try:
    import re._parser as sre_parse
    import re._constants as C
except ImportError:  # pragma: no cover
    import sre_parse
    import sre_constants as C


class NotEncodable(Exception):
    pass


def _char(cp):
    return z3.Re(z3.StringVal(chr(cp)))


def _class(items, ignorecase):
    parts = []
    for op, av in items:
        if op is C.NEGATE:
            raise NotEncodable('negated class')
        if op is C.LITERAL:
            parts += _lit(av, ignorecase)
        elif op is C.RANGE:
            lo, hi = av
            parts.append(z3.Range(chr(lo), chr(hi)))
            if ignorecase:
                for a, b in (('a', 'z'), ('A', 'Z')):
                    l2, h2 = max(lo, ord(a)), min(hi, ord(b))
                    if l2 <= h2:
                        sw = (lambda c: chr(c).swapcase())
                        parts.append(z3.Range(sw(l2), sw(h2)))
        elif op is C.CATEGORY:
            if av is C.CATEGORY_DIGIT:
                parts.append(z3.Range('0', '9'))
            elif av is C.CATEGORY_SPACE:
                parts += [_char(ord(c)) for c in ' \t\n\r\x0b\x0c']      # ASCII white space
            else:
                raise NotEncodable('category %s' % av)
        else:
            raise NotEncodable('class item %s' % op)
    return parts[0] if len(parts) == 1 else z3.Union(*parts)


def _lit(cp, ignorecase):
    ch = chr(cp)
    if ignorecase and ch.isalpha() and ch.swapcase() != ch and len(ch.swapcase()) == 1:
        return [_char(cp), _char(ord(ch.swapcase()))]
    return [_char(cp)]


def _seq(items, ignorecase, top=False):
    out = []
    items = list(items)
    for idx, (op, av) in enumerate(items):
        if op is C.LITERAL:
            ls = _lit(av, ignorecase)
            out.append(ls[0] if len(ls) == 1 else z3.Union(*ls))
        elif op is C.IN:
            out.append(_class(av, ignorecase))
        elif op is C.ANY:
            raise NotEncodable('dot')
        elif op is C.BRANCH:
            alts = [_seq(a, ignorecase) for a in av[1]]
            out.append(alts[0] if len(alts) == 1 else z3.Union(*alts))
        elif op is C.SUBPATTERN:
            out.append(_seq(av[3], ignorecase))
        elif op in (C.MAX_REPEAT, C.MIN_REPEAT):
            lo, hi, body = av
            b = _seq(body, ignorecase)
            if hi is C.MAXREPEAT:
                out.append(z3.Concat(*([b] * lo + [z3.Star(b)])) if lo > 0 else z3.Star(b))
                if lo > 0 and len([b] * lo + [z3.Star(b)]) == 1:
                    pass
            else:
                out.append(z3.Loop(b, lo, hi))
        elif op is C.AT:
            raise NotEncodable('assertion %s inside the pattern' % av)
        elif op in (C.ASSERT, C.ASSERT_NOT):
            raise NotEncodable('look-around inside the pattern')
        else:
            raise NotEncodable('construct %s' % op)
    if not out:
        return z3.Re(z3.StringVal(''))
    return out[0] if len(out) == 1 else z3.Concat(*out)


def prepare(pattern):
    return re.sub(r'\(\?<(?![=!])', '(?P<', pattern)


def strip_edges(items):
    """remove \\b / \\B / ^ / $ at the two ends of a sequence; returns (core items, leading assertions, trailing assertions)"""
    items = list(items)
    lead, trail = [], []
    while items and items[0][0] is C.AT:
        lead.append(items.pop(0)[1])
    while items and items[-1][0] is C.AT:
        trail.insert(0, items.pop()[1])
    return items, lead, trail


def translate(pattern, ignorecase=True):
    """-> (z3 regex of the core language, list of (lead assertions, trail assertions) per top-level alternative)"""
    tree = sre_parse.parse(prepare(pattern))
    items = list(tree)
    # unwrap a single outer group
    while len(items) == 1 and items[0][0] is C.SUBPATTERN:
        items = list(items[0][1][3])
    alts = [items]
    if len(items) == 1 and items[0][0] is C.BRANCH:
        alts = [list(a) for a in items[0][1][1]]
    res, edges = [], []
    for a in alts:
        a2 = list(a)
        while len(a2) == 1 and a2[0][0] is C.SUBPATTERN:
            a2 = list(a2[0][1][3])
        if len(a2) == 1 and a2[0][0] is C.BRANCH:
            for sub in a2[0][1][1]:
                core, lead, trail = strip_edges(sub)
                res.append(_seq(core, ignorecase))
                edges.append((lead, trail))
            continue
        core, lead, trail = strip_edges(a2)
        res.append(_seq(core, ignorecase))
        edges.append((lead, trail))
    return (res[0] if len(res) == 1 else z3.Union(*res)), edges


def equivalent(r1, r2, timeout_ms=60000, alphabet=None):
    """decide L(r1) == L(r2) (optionally over a restricted alphabet given as a z3 regex of single characters);
    returns ('unsat', None) when equal, ('sat', witness) with a string in exactly one of them, or ('unknown', None)"""
    s = z3.String('s')
    sol = z3.Solver()
    sol.set('timeout', timeout_ms)
    if alphabet is not None:
        sol.add(z3.InRe(s, z3.Star(alphabet)))
    sol.add(z3.Xor(z3.InRe(s, r1), z3.InRe(s, r2)))
    r = sol.check()
    if r == z3.sat:
        return 'sat', unescape(sol.model()[s].as_string())
    return str(r), None


def members(r, n, extra=None, timeout_ms=10000):
    """n distinct members of L(r) (solver models with blocking clauses), preferring different lengths"""
    s = z3.String('s')
    sol = z3.Solver()
    sol.set('timeout', timeout_ms)
    sol.add(z3.InRe(s, r))
    if extra is not None:
        sol.add(extra(s))
    out = []
    while len(out) < n and sol.check() == z3.sat:
        m = sol.model()[s]
        out.append(unescape(m.as_string()))
        sol.add(s != m)
    return out


def unescape(v):
    """z3 prints non-ASCII characters of a string value as \\u{hex}"""
    return re.sub(r'\\u\{([0-9a-fA-F]+)\}', lambda m: chr(int(m.group(1), 16)), v)


def finite_members(pattern, cap=200):
    """the strings of a pattern whose language is finite up to white-space runs (each \\s+ is written as one blank; optional
    parts are expanded both ways); None when the pattern has an unbounded or unsupported construct.  Syntactic enumeration of
    the real pattern source -- membership of every returned string is re-checked with the z3 term by the caller."""
    tree = sre_parse.parse(prepare(pattern))

    def walk(items):
        res = ['']
        for op, av in items:
            if op is C.AT:
                continue
            if op is C.LITERAL:
                res = [r + chr(av) for r in res]
            elif op is C.IN:
                if len(av) == 1 and av[0] == (C.CATEGORY, C.CATEGORY_SPACE):
                    res = [r + ' ' for r in res]
                else:
                    cs = []
                    for o2, a2 in av:
                        if o2 is C.LITERAL:
                            cs.append(chr(a2))
                        else:
                            return None
                    res = [r + c for r in res for c in cs]
            elif op is C.BRANCH:
                subs = []
                for alt in av[1]:
                    e = walk(alt)
                    if e is None:
                        return None
                    subs += e
                res = [r + x for r in res for x in subs]
            elif op is C.SUBPATTERN:
                e = walk(av[3])
                if e is None:
                    return None
                res = [r + x for r in res for x in e]
            elif op in (C.MAX_REPEAT, C.MIN_REPEAT):
                lo, hi, body = av
                e = walk(body)
                if e is None:
                    return None
                if len(body) == 1 and body[0][0] is C.IN and body[0][1] == [(C.CATEGORY, C.CATEGORY_SPACE)] and lo >= 1:
                    res = [r + ' ' for r in res]
                elif hi is not C.MAXREPEAT and hi <= 2:
                    opts = []
                    for k in range(lo, hi + 1):
                        layer = ['']
                        for _ in range(k):
                            layer = [a + b for a in layer for b in e]
                        opts += layer
                    res = [r + x for r in res for x in opts]
                else:
                    return None
            else:
                return None
            if len(res) > cap:
                return None
        return res
    return walk(list(tree))


# ---- over-approximating translation for inclusion checks ("every oracle string is matched by some pattern") --------------------------
_ASCII_U = None


def ascii_universe():
    """the characters an ASCII text can contain: printable ASCII and ASCII white space"""
    global _ASCII_U
    if _ASCII_U is None:
        _ASCII_U = z3.Union(z3.Range(' ', '~'), *[_char(ord(c)) for c in '\t\n\r\x0b\x0c'])
    return _ASCII_U


def prepare_loose(pattern):
    """rewrites that make the `regex`-module pattern parseable by the stdlib parser: .NET-style named groups, duplicate group
    names (legal in `regex`), \\p{L}"""
    import collections
    p = re.sub(r'\(\?<(?![=!])', '(?P<', pattern)
    seen = collections.Counter()

    def ren(m):
        n = m.group(1)
        seen[n] += 1
        return '(?P<%s__%d>' % (n, seen[n]) if seen[n] > 1 else m.group(0)
    p = re.sub(r'\(\?P<([A-Za-z_]\w*)>', ren, p)
    p = p.replace('\\p{L}', 'a-zA-Z').replace('\\P{L}', '0-9')
    return p


def translate_loose(pattern, ignorecase=True):
    """z3 regex R with: for every ASCII string s, (the real pattern fully matches s) implies s in L(R).  All zero-width assertions
    (\\b, ^, $, look-ahead/behind) are dropped -- they can only *restrict* matching -- and every class is given its ASCII meaning.
    Returns (R, number of assertions dropped).  Use only for claims of the form  oracle subset-of L(R)  /  for finding strings
    outside L(R); the converse direction would be unsound."""
    tree = sre_parse.parse(prepare_loose(pattern))
    dropped = [0]
    U = ascii_universe()

    def cls(items):
        neg = False
        parts = []
        for op, av in items:
            if op is C.NEGATE:
                neg = True
            elif op is C.LITERAL:
                parts += _lit(av, ignorecase)
            elif op is C.RANGE:
                lo, hi = av
                hi = min(hi, 0x7e) if lo <= 0x7e else hi
                if lo <= hi:
                    parts.append(z3.Range(chr(lo), chr(hi)))
                    if ignorecase:
                        for a, b in (('a', 'z'), ('A', 'Z')):
                            l2, h2 = max(lo, ord(a)), min(hi, ord(b))
                            if l2 <= h2:
                                parts.append(z3.Range(chr(l2).swapcase(), chr(h2).swapcase()))
            elif op is C.CATEGORY:
                parts.append(cat(av))
            else:
                raise NotEncodable('class item %s' % op)
        r = parts[0] if len(parts) == 1 else (z3.Union(*parts) if parts else z3.Empty(z3.ReSort(z3.StringSort())))
        return z3.Diff(U, r) if neg else r

    def cat(av):
        D = z3.Range('0', '9')
        W = z3.Union(z3.Range('a', 'z'), z3.Range('A', 'Z'), D, _char(ord('_')))
        S = z3.Union(*[_char(ord(c)) for c in ' \t\n\r\x0b\x0c'])
        if av is C.CATEGORY_DIGIT:
            return D
        if av is C.CATEGORY_NOT_DIGIT:
            return z3.Diff(U, D)
        if av is C.CATEGORY_WORD:
            return W
        if av is C.CATEGORY_NOT_WORD:
            return z3.Diff(U, W)
        if av is C.CATEGORY_SPACE:
            return S
        if av is C.CATEGORY_NOT_SPACE:
            return z3.Diff(U, S)
        raise NotEncodable('category %s' % av)

    def seq(items):
        out = []
        for op, av in items:
            if op is C.LITERAL:
                ls = _lit(av, ignorecase)
                out.append(ls[0] if len(ls) == 1 else z3.Union(*ls))
            elif op is C.NOT_LITERAL:
                out.append(z3.Diff(U, z3.Union(*_lit(av, ignorecase)) if len(_lit(av, ignorecase)) > 1 else _lit(av, ignorecase)[0]))
            elif op is C.IN:
                out.append(cls(av))
            elif op is C.ANY:
                out.append(U)
            elif op is C.BRANCH:
                alts = [seq(a) for a in av[1]]
                out.append(alts[0] if len(alts) == 1 else z3.Union(*alts))
            elif op is C.SUBPATTERN:
                out.append(seq(av[3]))
            elif op in (C.MAX_REPEAT, C.MIN_REPEAT):
                lo, hi, body = av
                b = seq(body)
                if hi is C.MAXREPEAT:
                    out.append(z3.Concat(z3.Loop(b, lo, lo), z3.Star(b)) if lo > 0 else z3.Star(b))
                else:
                    out.append(z3.Loop(b, lo, hi))
            elif op is C.AT or op in (C.ASSERT, C.ASSERT_NOT):
                dropped[0] += 1
            elif op is C.GROUPREF or op is C.GROUPREF_EXISTS:
                raise NotEncodable('back-reference')
            else:
                raise NotEncodable('construct %s' % op)
        if not out:
            return z3.Re(z3.StringVal(''))
        return out[0] if len(out) == 1 else z3.Concat(*out)
    return seq(list(tree)), dropped[0]


def not_included(oracle, patterns_re, timeout_ms=60000, extra=None):
    """a string of L(oracle) outside the union of the given (loose) pattern languages, or None if there is none ('unsat'), or 'unknown'"""
    s = z3.String('s')
    sol = z3.Solver()
    sol.set('timeout', timeout_ms)
    sol.add(z3.InRe(s, oracle))
    for r in patterns_re:
        sol.add(z3.Not(z3.InRe(s, r)))
    if extra is not None:
        sol.add(extra(s))
    r = sol.check()
    if r == z3.sat:
        return unescape(sol.model()[s].as_string())
    return None if r == z3.unsat else 'unknown'
