"""Symbolic datetime / timedelta / calendar for symx.

A point in time is (day number `o` as in datetime.toordinal, second of day `s`, microsecond ignored = 0).
Year/month/day of a day number are fresh solver variables tied to it by o == ymd2ord(Y, M, D) with (Y, M, D)
a valid civil date -- the standard proleptic Gregorian formula, so every calendar fact (month lengths,
leap years, weekday = day number mod 7, ISO weeks) follows in linear integer arithmetic with div/mod by
constants.  Constructing a datetime from the very (Y, M, D) of an existing day number returns that day
number (no solver work).  The classes mimic the part of the datetime API the code under test uses and
raise the exceptions the real classes raise (ValueError for invalid dates, TypeError for mixed ops).
"""
import datetime as _real
_Y_PADDED = len(_real.datetime(1, 1, 1).strftime('%Y')) == 4

import z3

from lib import symx
from lib.symx import SymInt, SymBool, lift, liftb, _t, eng

MINYEAR, MAXYEAR = 1, 9999


def _yr():
    return (1901, 2099) if NARROW[0] else (MINYEAR, MAXYEAR)
_DBM = [0, 0, 31, 59, 90, 120, 151, 181, 212, 243, 273, 304, 334]
_DIM = [0, 31, 28, 31, 30, 31, 30, 31, 31, 30, 31, 30, 31]


# NARROW[0]: every year the run touches is asserted to lie in 1901..2099, where leap <=> y % 4 == 0 and the century terms of
# the day-number formula are the constant 15; the constructor refuses (NotImplementedError -> inconclusive) anything outside.
NARROW = [False]


def _is_leap_t(y):
    if NARROW[0]:
        return y % 4 == 0
    return z3.And(y % 4 == 0, z3.Or(y % 100 != 0, y % 400 == 0))


def _days_before_year_t(y):
    y1 = y - 1
    if NARROW[0]:
        return y1 * 365 + y1 / 4 - 15
    return y1 * 365 + y1 / 4 - y1 / 100 + y1 / 400


def _chain(m, table):
    """table[m] for a z3 int m in 1..12"""
    m = z3.simplify(m)
    if z3.is_int_value(m):
        return z3.IntVal(table[m.as_long()])
    t = z3.IntVal(table[12])
    for k in range(11, 0, -1):
        t = z3.If(m == k, z3.IntVal(table[k]), t)
    return t


def _dim_t(y, m):
    return _chain(m, _DIM) + z3.If(z3.And(m == 2, _is_leap_t(y)), 1, 0)


def _ymd2ord_t(y, m, d):
    return _days_before_year_t(y) + _chain(m, _DBM) + z3.If(z3.And(m > 2, _is_leap_t(y)), 1, 0) + d


def days_in_month(y, m):
    return lift(_dim_t(_t(y), _t(m)))


def is_leap(y):
    return liftb(_is_leap_t(_t(y)))


class _CalendarShim:
    """stands in for the `calendar` module inside modules under test"""
    @staticmethod
    def monthrange(y, m):
        if not (1 <= m <= 12):
            raise ValueError('bad month number; must be 1-12')
        return _MonthRange(y, m)

    @staticmethod
    def isleap(y):
        return is_leap(y)

    def __getattr__(self, name):
        import calendar
        return getattr(calendar, name)


class _MonthRange:
    """(weekday of the 1st, number of days) computed on demand"""
    def __init__(self, y, m):
        self.y, self.m = y, m

    def __getitem__(self, i):
        if i == 0:
            return sdatetime(self.y, self.m, 1).weekday()
        if i == 1:
            return days_in_month(self.y, self.m)
        raise IndexError(i)

    def __iter__(self):
        return iter((self[0], self[1]))


calendar = _CalendarShim()


def _as_sym(x):
    return x if isinstance(x, SymInt) else x


class stimedelta:
    """total = days * 86400 + seconds (microseconds are not modelled: must be 0)"""
    __slots__ = ('tot',)

    def __init__(self, days=0, seconds=0, microseconds=0, milliseconds=0, minutes=0, hours=0, weeks=0):
        if microseconds or milliseconds:
            raise NotImplementedError('symdate: sub-second timedelta')
        for v in (days, seconds, minutes, hours, weeks):
            if isinstance(v, float):
                if v != int(v):
                    raise NotImplementedError('symdate: fractional timedelta component %r' % (v,))
        f = lambda v: int(v) if isinstance(v, float) else v  # noqa
        self.tot = (f(days) + f(weeks) * 7) * 86400 + f(hours) * 3600 + f(minutes) * 60 + f(seconds)

    @classmethod
    def _of(cls, tot):
        r = cls.__new__(cls)
        r.tot = tot
        return r

    @property
    def days(self):
        return self.tot // 86400

    @property
    def seconds(self):
        return self.tot % 86400

    @property
    def microseconds(self):
        return 0

    def total_seconds(self):
        return self.tot

    def __add__(self, o):
        if isinstance(o, stimedelta):
            return stimedelta._of(self.tot + o.tot)
        if isinstance(o, sdatetime):
            return o + self
        return NotImplemented

    __radd__ = __add__

    def __sub__(self, o):
        if isinstance(o, stimedelta):
            return stimedelta._of(self.tot - o.tot)
        return NotImplemented

    def __neg__(self):
        return stimedelta._of(-self.tot)

    def __mul__(self, k):
        if isinstance(k, float):
            raise NotImplementedError('symdate: timedelta * float')
        return stimedelta._of(self.tot * k)

    __rmul__ = __mul__

    def __floordiv__(self, o):
        if isinstance(o, stimedelta):
            return self.tot // o.tot
        return stimedelta._of(self.tot // o)

    def __truediv__(self, o):
        if isinstance(o, stimedelta):
            return self.tot / o.tot
        raise NotImplementedError('symdate: timedelta / number')

    def __abs__(self):
        return stimedelta._of(abs(self.tot))

    def __bool__(self):
        return bool(self.tot != 0)

    def _cmp(self, o, f):
        if not isinstance(o, stimedelta):
            return NotImplemented
        return f(self.tot, o.tot)

    def __lt__(self, o):
        return self._cmp(o, lambda a, b: a < b)

    def __le__(self, o):
        return self._cmp(o, lambda a, b: a <= b)

    def __gt__(self, o):
        return self._cmp(o, lambda a, b: a > b)

    def __ge__(self, o):
        return self._cmp(o, lambda a, b: a >= b)

    def __eq__(self, o):
        if not isinstance(o, stimedelta):
            return False
        return self.tot == o.tot

    def __ne__(self, o):
        r = self.__eq__(o)
        return (~r) if isinstance(r, SymBool) else (not r)

    def __hash__(self):
        return hash(int(self.tot))

    def __repr__(self):
        return 'stimedelta(tot=%r)' % (self.tot,)


class _TimeTuple:
    def __init__(self, dt):
        self._dt = dt

    @property
    def tm_yday(self):
        dt = self._dt
        return dt.toordinal() - sdatetime(dt.year, 1, 1).toordinal() + 1

    @property
    def tm_year(self):
        return self._dt.year

    @property
    def tm_mon(self):
        return self._dt.month

    @property
    def tm_mday(self):
        return self._dt.day

    @property
    def tm_wday(self):
        return self._dt.weekday()


class sdatetime:
    __slots__ = ('_o', '_y', '_m', '_d', '_s')
    _ORD_CACHE = {}

    def __init__(self, year, month=None, day=None, hour=0, minute=0, second=0, microsecond=0, tzinfo=None):
        if isinstance(year, (_real.datetime, _real.date)):
            raise TypeError('symdate: real datetime passed to symbolic constructor')
        if month is None or day is None:
            raise TypeError("function missing required argument 'month'/'day'")
        if tzinfo is not None:
            raise NotImplementedError('symdate: tzinfo')
        if microsecond:
            microsecond = 0
        for v in (year, month, day, hour, minute, second):
            if isinstance(v, float):
                raise TypeError("'float' object cannot be interpreted as an integer")
            if not isinstance(v, (int, SymInt)):
                raise TypeError('an integer is required (got type %s)' % type(v).__name__)
        hit = _FIELDS_OF.get(_ymd_key(year, month, day)) if isinstance(year, SymInt) else None
        if hit is not None:
            # (year, month, day) are exactly the fields of a known day number: valid by construction
            if not (0 <= hour <= 23) or not (0 <= minute <= 59) or not (0 <= second <= 59):
                raise ValueError('time field out of range')
            self._y, self._m, self._d = year, month, day
            self._s = hour * 3600 + minute * 60 + second
            self._o = hit
            return
        if not (MINYEAR <= year <= MAXYEAR):
            raise ValueError('year %s is out of range' % (year,))
        if NARROW[0] and not (1901 <= year <= 2099):
            raise NotImplementedError('symdate: year outside 1901..2099 in narrow mode')
        if not (1 <= month <= 12):
            raise ValueError('month must be in 1..12')
        if not (1 <= day <= days_in_month(year, month)):
            raise ValueError('day is out of range for month')
        if not (0 <= hour <= 23):
            raise ValueError('hour must be in 0..23')
        if not (0 <= minute <= 59):
            raise ValueError('minute must be in 0..59')
        if not (0 <= second <= 59):
            raise ValueError('second must be in 0..59')
        self._y, self._m, self._d = year, month, day
        self._s = hour * 3600 + minute * 60 + second
        self._o = None

    # -- representation helpers -----------------------------------------------------------------
    @classmethod
    def _from_ord(cls, o, s):
        r = cls.__new__(cls)
        r._o, r._s = o, s
        r._y = r._m = r._d = None
        return r

    def _ord(self):
        if self._o is None:
            key = _ymd_key(self._y, self._m, self._d)
            hit = _FIELDS_OF.get(key)
            if hit is not None:
                self._o = hit
            else:
                self._o = lift(_ymd2ord_t(_t(self._y), _t(self._m), _t(self._d)))
        return self._o

    def _fields(self):
        if self._y is None:
            o = self._o
            if isinstance(o, int):
                d = _real.date.fromordinal(o)
                self._y, self._m, self._d = d.year, d.month, d.day
            else:
                e = eng()
                k = str(o.t)
                hit = _ORD_FIELDS.get(k)
                if hit is None:
                    Y, M, D = e.fresh('Y'), e.fresh('M'), e.fresh('D')
                    e.add(z3.And(Y >= _yr()[0], Y <= _yr()[1], M >= 1, M <= 12, D >= 1, D <= _dim_t(Y, M), _ymd2ord_t(Y, M, D) == o.t))
                    hit = (SymInt(Y), SymInt(M), SymInt(D))
                    _ORD_FIELDS[k] = hit
                    _FIELDS_OF[_ymd_key(*hit)] = o
                self._y, self._m, self._d = hit
        return self._y, self._m, self._d

    # -- attributes -------------------------------------------------------------------------------
    @property
    def year(self):
        return self._fields()[0]

    @property
    def month(self):
        return self._fields()[1]

    @property
    def day(self):
        return self._fields()[2]

    @property
    def hour(self):
        return self._s // 3600

    @property
    def minute(self):
        return (self._s % 3600) // 60

    @property
    def second(self):
        return self._s % 60

    @property
    def microsecond(self):
        return 0

    @property
    def tzinfo(self):
        return None

    def toordinal(self):
        return self._ord()

    @classmethod
    def fromordinal(cls, o):
        if not (1 <= o <= 3652059):
            raise ValueError('ordinal out of range')
        return cls._from_ord(o, 0)

    def weekday(self):
        return (self._ord() + 6) % 7

    def isoweekday(self):
        return (self._ord() + 6) % 7 + 1

    def isocalendar(self):
        o = self._ord()
        wd = (o + 6) % 7                       # Monday = 0
        thursday = sdatetime._from_ord(o - wd + 3, 0)
        iso_year = thursday.year
        week = (thursday._ord() - sdatetime(iso_year, 1, 1)._ord()) // 7 + 1
        return (iso_year, week, wd + 1)

    def timetuple(self):
        return _TimeTuple(self)

    def date(self):
        return sdatetime._from_ord(self._ord(), 0)._with_fields(self)

    def _with_fields(self, other):
        if other._y is not None:
            self._y, self._m, self._d = other._y, other._m, other._d
        return self

    def replace(self, year=None, month=None, day=None, hour=None, minute=None, second=None, microsecond=None, tzinfo=None):
        y, m, d = self._fields()
        return sdatetime(year if year is not None else y, month if month is not None else m, day if day is not None else d,
                         hour if hour is not None else self.hour, minute if minute is not None else self.minute,
                         second if second is not None else self.second)

    # -- arithmetic ------------------------------------------------------------------------------
    def __add__(self, o):
        if isinstance(o, stimedelta):
            tot = self._s + o.tot
            no = self._ord() + tot // 86400
            if not (1 <= no <= 3652059):
                raise OverflowError('date value out of range')
            r = sdatetime._from_ord(no, tot % 86400)
            if isinstance(tot // 86400, int) and tot // 86400 == 0:
                r._with_fields(self)
            return r
        return NotImplemented

    __radd__ = __add__

    def __sub__(self, o):
        if isinstance(o, stimedelta):
            return self + (-o)
        if isinstance(o, sdatetime):
            return stimedelta._of((self._ord() - o._ord()) * 86400 + (self._s - o._s))
        return NotImplemented

    def _key(self):
        return self._ord() * 86400 + self._s

    def _cmp(self, o, f):
        if not isinstance(o, sdatetime):
            raise TypeError("can't compare symbolic datetime to %s" % type(o).__name__)
        if self._o is None and o._o is None:
            # both given by fields: compare (y, m, d, s) lexicographically -- no day-number arithmetic needed
            a = ((self._y * 16 + self._m) * 32 + self._d) * 86400 + self._s
            b = ((o._y * 16 + o._m) * 32 + o._d) * 86400 + o._s
            return f(a, b)
        return f(self._key(), o._key())

    def __lt__(self, o):
        return self._cmp(o, lambda a, b: a < b)

    def __le__(self, o):
        return self._cmp(o, lambda a, b: a <= b)

    def __gt__(self, o):
        return self._cmp(o, lambda a, b: a > b)

    def __ge__(self, o):
        return self._cmp(o, lambda a, b: a >= b)

    def __eq__(self, o):
        if not isinstance(o, sdatetime):
            return False
        return self._cmp(o, lambda a, b: a == b)

    def __ne__(self, o):
        r = self.__eq__(o)
        return (~r) if isinstance(r, SymBool) else (not r)

    def __hash__(self):
        return hash(int(self._key()))

    def __bool__(self):
        return True

    def __repr__(self):
        return 'sdatetime(o=%r, s=%r)' % (self._o if self._o is not None else (self._y, self._m, self._d), self._s)

    def __format__(self, spec):
        if spec == '':
            return str(self)
        return self.strftime(spec)

    def strftime(self, fmt):
        """%Y %m %d %H %M %S %y %% only.  Every field is rendered through format(v, '0Nd') (so the digit-placeholder hook applies);
        %Y follows the C library of this platform, which (glibc) does not zero-pad years below 1000 -- probed, not assumed."""
        out = ''
        i = 0
        while i < len(fmt):
            c = fmt[i]
            if c != '%':
                out += c
                i += 1
                continue
            d = fmt[i + 1:i + 2]
            i += 2
            if d == '%':
                out += '%'
            elif d == 'Y':
                y = self.year
                if _Y_PADDED or y >= 1000:
                    out += format(y, '04d')
                elif y >= 100:
                    out += format(y, '03d')
                elif y >= 10:
                    out += format(y, '02d')
                else:
                    out += format(y, '01d')
            elif d == 'y':
                out += format(self.year % 100, '02d')
            elif d in 'mdHMS':
                out += format({'m': self.month, 'd': self.day, 'H': self.hour, 'M': self.minute, 'S': self.second}[d], '02d')
            else:
                raise NotImplementedError('symdate: strftime directive %%%s' % d)
        return out

    @classmethod
    def now(cls, tz=None):
        # environment stub: the wall clock returns an arbitrary instant (1950..2100)
        e = eng()
        o, s = e.fresh('now_day'), e.fresh('now_sec')
        e.add(z3.And(o >= 711858, o <= 767010, s >= 0, s <= 86399))
        return cls._from_ord(SymInt(o), SymInt(s))

    @classmethod
    def strptime(cls, s, fmt):
        raise NotImplementedError('symdate: strptime')


sdatetime.min = None   # set per run (needs an engine-independent constant): see reset()
_ORD_FIELDS = {}
_FIELDS_OF = {}


def _ymd_key(y, m, d):
    return tuple(str(_t(v)) for v in (y, m, d))


def reset():
    """per-path reset of the field caches (fresh variables belong to one path)"""
    _ORD_FIELDS.clear()
    _FIELDS_OF.clear()


def const(y, m, d, hh=0, mi=0, ss=0):
    """an engine-independent concrete datetime (e.g. DateUtils.min_value)"""
    r = sdatetime._from_ord(_real.date(y, m, d).toordinal(), hh * 3600 + mi * 60 + ss)
    r._y, r._m, r._d = y, m, d
    return r


sdatetime.min = const(1, 1, 1)
sdatetime.max = const(9999, 12, 31, 23, 59, 59)


def selftest(n=3000, seed=7):
    """validation of the calendar model (not a verdict): on concrete values every modelled operation must agree with
    the real datetime module"""
    import random
    rnd = random.Random(seed)
    for i in range(n):
        o = rnd.randint(1, 3652059 - 400) if i % 3 else rnd.randint(711858, 763363)
        d = _real.datetime.fromordinal(o) + _real.timedelta(seconds=rnd.randint(0, 86399))
        s = sdatetime(d.year, d.month, d.day, d.hour, d.minute, d.second)
        k = rnd.randint(-400, 400)
        s2 = s + stimedelta(days=k, seconds=rnd.randint(-5000, 5000) if i % 2 else 0)
        d2 = d + _real.timedelta(seconds=(s2 - s).total_seconds())
        checks = [
            (s.toordinal(), d.toordinal()), (s.weekday(), d.weekday()), (s.isoweekday(), d.isoweekday()),
            (tuple(s.isocalendar()), tuple(d.isocalendar())), ((s2.year, s2.month, s2.day, s2.hour, s2.minute, s2.second),
                                                              (d2.year, d2.month, d2.day, d2.hour, d2.minute, d2.second)),
            (s.timetuple().tm_yday, d.timetuple().tm_yday), (days_in_month(d.year, d.month), __import__('calendar').monthrange(d.year, d.month)[1]),
            (bool(s2 < s), d2 < d), (bool(s2 == s), d2 == d), ((s2 - s).days, (d2 - d).days), ((s2 - s).seconds, (d2 - d).seconds),
        ]
        f = sdatetime.fromordinal(o)
        checks.append(((f.year, f.month, f.day), (d.year, d.month, d.day)))
        for a, b in checks:
            if a != b:
                raise AssertionError('symdate model disagrees with datetime on %r: %r != %r' % (d, a, b))
    return n
